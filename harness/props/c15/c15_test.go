// C15: follower, read-only, password and protected-mode gates hold for every
// command. The command table is enumerated at run time from the server's
// dispatch switch and core/commands.json; every (command, variant) is run on
// a plain leader first (metamorphic reference: does it change the dataset or
// the log, does it return stored data?) and then on every gated
// configuration, where the reference classification decides what must
// happen.
package c15

import (
	"encoding/json"
	"fmt"
	"os"
	"regexp"
	"sort"
	"strings"
	"testing"
	"time"

	"github.com/tidwall/tile38/verif/harness/ev"
	"github.com/tidwall/tile38/verif/harness/gen"
	"github.com/tidwall/tile38/verif/harness/t38"
	"pgregory.net/rapid"
)

func TestMain(m *testing.M) {
	code := m.Run()
	// in-process servers still shutting down (a follower's Stop waits out its
	// reconnect sleep: ~35 s in total) end with the process; the driver removes
	// the work directory
	os.Exit(code)
}

type failer interface {
	Fatalf(format string, args ...any)
	Helper()
}

// ---- modes ------------------------------------------------------------------

type modeKind int

const (
	mLeader modeKind = iota
	mFollower
	mNCU
	mReadOnly
	mPwUnauth
	mPwAuth
	mProtLoop
	mProtNonLoop
	mPwStale // password set by CONFIG SET after the connection was opened and used
)

type mode struct {
	name string
	kind modeKind
	n    *node
	sub  string // collector this mode reports to
}

var exempt = map[string]bool{"ping": true, "echo": true, "quit": true, "output": true, "healthz": true, "auth": true}

const basePass = "cnrpw-Main_7"

// ---- environment --------------------------------------------------------------

type env struct {
	cs       map[string]*ev.Collector
	table    []cmdInfo
	groups   map[string]string
	ref      *node
	l2, f    *node
	ro       *node
	tpl      *node
	empty    *node // leader without data: a reply that differs from the prepared leader's depends on the data
	ncu      *node
	pwFile   *node
	pwSet    *node
	prot     *node
	modes    []*mode
	sc       shapeCtx
	release  func()
	loadCmds [][]string
	prepared string // canonical dump of the prepared state
	tplSnap  string // frozen copy of the template data directory
	stale    []*preConn // connections opened and used before requirepass was configured
	priming  [][]string // generated gated commands the pre-existing connections ran
	staleN   int
	ncuBatch []cellReplay
	ncuMax   int
	matrix   map[string]map[string]map[string]map[string]map[string]bool // sub -> mode -> variant -> outcome -> cmd
	sampleBy map[string]any
}

func (e *env) nodes() []*node {
	return []*node{e.ref, e.l2, e.f, e.ro, e.tpl, e.empty, e.ncu, e.pwFile, e.pwSet, e.prot}
}

func (e *env) close() {
	for _, n := range e.nodes() {
		n.stopAsync()
	}
	e.dropStale()
	if e.release != nil {
		e.release()
	}
	if e.tplSnap != "" {
		os.RemoveAll(e.tplSnap)
	}
}

func harnessFatal(t failer, format string, a ...any) {
	t.Helper()
	t.Fatalf("HARNESS: "+format, a...)
}

// newEnv starts every server of the matrix that wanted selects ("" = all).
func newEnv(t failer, cs map[string]*ev.Collector, wanted map[modeKind]bool) *env {
	e := &env{cs: cs, groups: map[string]string{}, ncuMax: 40,
		matrix: map[string]map[string]map[string]map[string]map[string]bool{}, sampleBy: map[string]any{}}
	want := func(k modeKind) bool { return wanted == nil || wanted[k] }
	var err error
	e.table, err = loadCommandTable()
	if err != nil {
		harnessFatal(t, "command table: %v", err)
	}
	for _, ci := range e.table {
		e.groups[ci.Name] = ci.Group
	}
	port, rel, err := holdClosedPort()
	if err != nil {
		harnessFatal(t, "closed port: %v", err)
	}
	e.release = rel
	e.sc = shapeCtx{closedPort: port, pass: basePass}
	must := func(n *node, err error) *node {
		if err != nil {
			e.close()
			harnessFatal(t, "start: %v", err)
		}
		return n
	}
	e.ref = must(startNode("leader", t38.Opts{}))
	e.modes = append(e.modes, &mode{name: "leader", kind: mLeader, n: e.ref, sub: "leader"})
	if want(mFollower) {
		e.l2 = must(startNode("l2", t38.Opts{}))
		e.l2.keepRunning = true
		e.f = must(startNode("follower", t38.Opts{}))
		e.f.follows = e.l2
		if err := e.f.mustOK("FOLLOW", "127.0.0.1", itoa(e.l2.srv.Port)); err != nil {
			e.close()
			harnessFatal(t, "FOLLOW: %v", err)
		}
		e.modes = append(e.modes, &mode{name: "follower-caught-up", kind: mFollower, n: e.f, sub: "writes"})
	}
	if want(mReadOnly) {
		e.ro = must(startNode("readonly", t38.Opts{}))
		e.ro.readonly = true
		e.modes = append(e.modes, &mode{name: "read-only", kind: mReadOnly, n: e.ro, sub: "writes"})
	}
	if want(mNCU) {
		e.tpl = must(startNode("template", t38.Opts{}))
		e.empty = must(startNode("empty-leader", t38.Opts{}))
		e.modes = append(e.modes, &mode{name: "follower-never-caught-up", kind: mNCU, sub: "catchingup"})
	}
	if want(mPwUnauth) || want(mPwAuth) {
		dir := t38.NewDir("c15-pwfile")
		if err := writeConfig(dir, map[string]any{"requirepass": basePass}); err != nil {
			harnessFatal(t, "config: %v", err)
		}
		e.pwFile = must(startNode("pw-file", t38.Opts{Dir: dir}))
		e.pwFile.pass, e.pwFile.passVia = basePass, "file"
		e.pwSet = must(startNode("pw-configset", t38.Opts{}))
		e.pwSet.passVia = "configset"
		if err := e.pwSet.mustOK("CONFIG", "SET", "requirepass", basePass); err != nil {
			e.close()
			harnessFatal(t, "CONFIG SET requirepass: %v", err)
		}
		e.pwSet.pass = basePass
		for _, n := range []*node{e.pwFile, e.pwSet} {
			if want(mPwUnauth) {
				e.modes = append(e.modes, &mode{name: "password-" + n.passVia + "-unauthenticated", kind: mPwUnauth, n: n, sub: "auth"})
			}
			if want(mPwAuth) {
				e.modes = append(e.modes, &mode{name: "password-" + n.passVia + "-authenticated", kind: mPwAuth, n: n, sub: "auth"})
			}
		}
		if want(mPwUnauth) {
			e.modes = append(e.modes, &mode{name: "password-configset-preexisting-connection", kind: mPwStale, n: e.pwSet, sub: "auth"})
		}
	}
	if want(mProtLoop) || want(mProtNonLoop) {
		e.prot = must(startNode("protected", t38.Opts{Protected: "yes"}))
		if want(mProtLoop) {
			e.modes = append(e.modes, &mode{name: "protected-loopback", kind: mProtLoop, n: e.prot, sub: "protected"})
		}
		if want(mProtNonLoop) {
			e.modes = append(e.modes, &mode{name: "protected-non-loopback", kind: mProtNonLoop, n: e.prot, sub: "protected"})
		}
	}
	return e
}

// startNCU boots a follower on a copy of the template directory whose config
// names a port nobody listens on: it holds the prepared data, follows, and
// can never catch up.
func (e *env) startNCU() error {
	if e.ncu != nil {
		e.ncu.stopAsync()
		e.ncu = nil
	}
	dir := t38.NewDir("c15-ncu")
	if err := t38.CopyDir(e.tplSnap, dir); err != nil {
		return err
	}
	if err := writeConfig(dir, map[string]any{"follow_host": "127.0.0.1", "follow_port": e.sc.closedPort}); err != nil {
		return err
	}
	n, err := startNode("ncu", t38.Opts{Dir: dir})
	if err != nil {
		return err
	}
	n.ncu = true
	v, err := n.do("SERVER")
	if err != nil {
		n.stopAsync()
		return err
	}
	if !v.IsErr() || !strings.Contains(v.Str, "catching up") {
		n.stopAsync()
		return fmt.Errorf("never-caught-up follower answers SERVER with %s", v)
	}
	e.ncu = n
	n.wantFP = ""
	s, err := n.snapshot()
	if err != nil {
		return err
	}
	n.base, n.wantFP = s, s.FP
	for _, m := range e.modes {
		if m.kind == mNCU {
			m.n = n
		}
	}
	e.ncuBatch = nil
	return nil
}

// deepCheckNCU turns the never-caught-up follower into a leader (FOLLOW no
// one, no restart: the in-memory dataset becomes readable) and compares its
// dataset with the prepared one. The node is discarded afterwards.
func (e *env) deepCheckNCU() (diff string, err error) {
	n := e.ncu
	if n == nil {
		return "", nil
	}
	if err := n.mustOK("FOLLOW", "no", "one"); err != nil {
		return "", err
	}
	n.ncu = false
	ok, err := n.waitDump(e.prepared, 5*time.Second)
	if !ok {
		d, derr := t38.TakeDumpOn(n.admin)
		if derr != nil {
			return "", derr
		}
		var want t38.Dump
		json.Unmarshal([]byte(e.prepared), &want)
		diff = want.Diff(d)
		if diff == "" {
			diff = "dump differs (canonical text)"
		}
	}
	_ = err
	return diff, nil
}

// prepare puts the same dataset (core canaries + extras) on every server.
func (e *env) prepare(t failer, extras [][]string) {
	e.dropStale()
	e.loadCmds = append(coreState(), extras...)
	if err := e.ref.restoreConfig(); err != nil {
		harnessFatal(t, "%v", err)
	}
	if err := e.ref.load(e.loadCmds); err != nil {
		harnessFatal(t, "%v", err)
	}
	d, err := t38.TakeDumpOn(e.ref.admin)
	if err != nil {
		harnessFatal(t, "%v", err)
	}
	e.prepared = d.Canon()
	for _, tok := range secretTokens {
		if !strings.Contains(e.prepared, tok) {
			harnessFatal(t, "prepared state lost canary %s", tok)
		}
	}
	for _, n := range []*node{e.l2, e.ro, e.tpl, e.pwFile, e.pwSet, e.prot} {
		if n == nil {
			continue
		}
		if err := n.restoreConfig(); err != nil {
			harnessFatal(t, "%v", err)
		}
		if err := n.load(e.loadCmds); err != nil {
			harnessFatal(t, "%v", err)
		}
		if ok, err := n.waitDump(e.prepared, 60*time.Second); !ok {
			harnessFatal(t, "%s does not hold the prepared state: %v", n.name, err)
		}
	}
	if e.empty != nil {
		if err := e.empty.restoreConfig(); err != nil {
			harnessFatal(t, "%v", err)
		}
		e.empty.do("FLUSHDB")
		fp, err := e.empty.configFP()
		if err != nil {
			harnessFatal(t, "%v", err)
		}
		e.empty.wantFP = fp
	}
	if e.f != nil {
		if err := e.f.restoreConfig(); err != nil {
			harnessFatal(t, "%v", err)
		}
		ok, _ := e.f.waitDump(e.prepared, 30*time.Second)
		v, _ := e.f.do("SERVER")
		if m := serverMap(v); !ok || m["caught_up"] != "true" || m["following"] == "" {
			// replication itself is C06's subject: without a faithful copy the
			// follower mode cannot be judged here; the other modes still are.
			for _, c := range e.cs {
				c.Inconclusive("caught-up follower mode dropped: follower did not reach the prepared dataset within 30s (in sync=%v, SERVER=%v)", ok, m)
				break
			}
			var keep []*mode
			for _, md := range e.modes {
				if md.kind != mFollower {
					keep = append(keep, md)
				}
			}
			e.modes = keep
			e.f.stopAsync()
			e.l2.stopAsync()
			e.f, e.l2 = nil, nil
		}
	}
	if e.tpl != nil {
		if e.tplSnap != "" {
			os.RemoveAll(e.tplSnap)
		}
		e.tplSnap = t38.NewDir("c15-tplsnap")
		if err := t38.CopyDir(e.tpl.srv.Dir, e.tplSnap); err != nil {
			harnessFatal(t, "%v", err)
		}
		if err := e.startNCU(); err != nil {
			harnessFatal(t, "never-caught-up follower: %v", err)
		}
		// sacrificial instance: does a server booted from the copied directory
		// hold the prepared dataset at all? (persistence is C03's subject)
		diff, err := e.deepCheckNCU()
		if err != nil {
			harnessFatal(t, "never-caught-up follower: %v", err)
		}
		if diff != "" {
			e.cs["catchingup"].Inconclusive("never-caught-up follower mode dropped: a server booted from a copy of the leader's data directory does not hold the prepared dataset: %s", diff)
			var keep []*mode
			for _, md := range e.modes {
				if md.kind != mNCU {
					keep = append(keep, md)
				}
			}
			e.modes = keep
			e.ncu.stopAsync()
			e.tpl.stopAsync()
			e.ncu, e.tpl = nil, nil
		} else if err := e.startNCU(); err != nil {
			harnessFatal(t, "never-caught-up follower: %v", err)
		}
	}
	for _, n := range []*node{e.ref, e.f, e.ro, e.pwFile, e.pwSet, e.prot} {
		if n == nil {
			continue
		}
		n.wantFP = ""
		s, err := n.snapshot()
		if err != nil {
			harnessFatal(t, "%v", err)
		}
		n.base, n.wantFP = s, s.FP
	}
}

// ---- cells ----------------------------------------------------------------------

// cellReplay is the replay document of one cell.
type cellReplay struct {
	Mode    string     `json:"mode"`
	Variant string     `json:"variant"`
	Cmd     string     `json:"cmd"`
	Args    []string   `json:"args"`
	Extras  [][]string `json:"extras,omitempty"`
	Batch   []cellReplay `json:"ncu_batch,omitempty"`
	Sent    string     `json:"sent,omitempty"`
}

// refInfo is the classification of a (variant, shape) by the reference run.
type refInfo struct {
	res       result
	ok        bool // the reference run produced a usable observation
	mutates   bool
	serves    bool
	docRead   bool
	dataDep   bool   // the reply differs from the reply of an EMPTY leader: it depends on the stored data
	emptyNorm string // normalised first reply of the empty leader
	afterDump string
}

func baseName(args []string) string {
	if len(args) == 0 {
		return ""
	}
	return strings.ToLower(strings.SplitN(args[0], "@", 2)[0])
}

// resolve replaces mode dependent placeholders in a shape.
func (e *env) resolve(args []string, k modeKind) []string {
	if len(args) == 1 && strings.HasSuffix(args[0], "@noone") {
		word := strings.TrimSuffix(args[0], "@noone")
		switch k {
		case mFollower, mNCU:
			// "no one" would legitimately end the follower role: not a gate matter
			return []string{word, "127.0.0.1", itoa(e.sc.closedPort)}
		case mPwUnauth, mPwStale, mProtNonLoop:
			// a live leader: must be refused, or the server would start following it
			return []string{word, "127.0.0.1", itoa(e.ref.srv.Port)}
		}
		return []string{word, "no", "one"}
	}
	return args
}

func (e *env) record(sub, mode string, v variant, cmd, outcome string) {
	m1 := e.matrix[sub]
	if m1 == nil {
		m1 = map[string]map[string]map[string]map[string]bool{}
		e.matrix[sub] = m1
	}
	m2 := m1[mode]
	if m2 == nil {
		m2 = map[string]map[string]map[string]bool{}
		m1[mode] = m2
	}
	m3 := m2[string(v)]
	if m3 == nil {
		m3 = map[string]map[string]bool{}
		m2[string(v)] = m3
	}
	if m3[outcome] == nil {
		m3[outcome] = map[string]bool{}
	}
	m3[outcome][cmd] = true
}

// flushMatrix writes the matrix of every collector as its first sample.
func (e *env) flushMatrix() {
	for sub, c := range e.cs {
		out := map[string]map[string]map[string]string{}
		for mode, m2 := range e.matrix[sub] {
			out[mode] = map[string]map[string]string{}
			for v, m3 := range m2 {
				out[mode][v] = map[string]string{}
				for oc, cmds := range m3 {
					var names []string
					for n := range cmds {
						names = append(names, n)
					}
					sort.Strings(names)
					out[mode][v][oc] = strings.Join(names, " ")
				}
			}
		}
		if len(out) > 0 {
			c.Sample(map[string]any{"matrix(mode/variant/outcome -> commands)": out})
		}
		n := 0
		for _, cmd := range preferredSamples[sub] {
			if v, ok := e.sampleBy[sub+"\x00"+cmd]; ok && n < 3 {
				c.Sample(v)
				n++
			}
		}
	}
}

// keepSample remembers the first sample per (sub, command); flushMatrix
// emits a few of them, preferring a spread of commands.
func (e *env) keepSample(sub, cmd string, v any) {
	key := sub + "\x00" + cmd
	if _, ok := e.sampleBy[key]; !ok && len(e.sampleBy) < 2000 {
		e.sampleBy[key] = v
	}
}

var preferredSamples = map[string][]string{
	"leader":     {"sethook", "nearby", "jdel", "set", "keys"},
	"writes":     {"jdel", "sethook", "rename", "flushdb", "set"},
	"catchingup": {"scan", "exists", "jdel", "get", "within"},
	"auth":       {"auth", "keys", "config set", "set", "get"},
	"protected":  {"set", "follow", "get", "config set"},
}

type cellCtx struct {
	info   cmdInfo
	v      variant
	base   []string
	extras [][]string
}

func (cc cellCtx) replay(mode string, sent []string) cellReplay {
	return cellReplay{Mode: mode, Variant: string(cc.v), Cmd: cc.info.Name, Args: cc.base, Extras: cc.extras, Sent: t38.CmdString(sent)}
}

// runCell executes one cell on one mode and applies the mode's oracle.
// ref is nil for the reference run itself, whose classification is returned.
func (e *env) runCell(t failer, md *mode, cc cellCtx, ref *refInfo) *refInfo {
	c := e.cs[md.sub]
	n := md.n
	args := e.resolve(cc.base, md.kind)
	bname := baseName(args)
	w, preload := wire(cc.v, args)
	if cc.v.http() && !httpRepresentable(w) {
		c.Label("skipped:http-unrepresentable-shape")
		return nil
	}
	if md.kind == mPwAuth && cc.v == vHTTPNoAuth {
		return nil // that is an unauthenticated request: covered by the unauthenticated mode
	}
	if md.kind == mProtNonLoop {
		e.runNonLoopback(t, md, cc, w, ref)
		return nil
	}
	if md.kind == mPwStale && cc.v.http() {
		return nil // an HTTP request is its own connection: it cannot pre-exist
	}
	if preload != "" {
		if _, err := n.do("SCRIPT", "LOAD", preload); err != nil {
			harnessFatal(t, "%v", err)
		}
	}
	o := execOpts{addr: n.srv.Addr, v: cc.v, wire: w, httpAuth: "cnrAnyAuth"}
	expectAuth := false
	switch md.kind {
	case mPwAuth:
		o.preAuth = n.pass
		o.httpAuth = " " + n.pass + " "
	case mPwUnauth, mPwStale:
		o.probe = true
		o.httpAuth = n.pass + "x"
		if md.kind == mPwStale {
			o.pre = e.takeStale(t)
			c.Label("preexisting-connection-had-run:" + o.pre.primed)
		}
		if bname == "auth" && (cc.v == vPlain || cc.v == vJSON) && len(args) >= 2 && args[1] == n.pass {
			expectAuth = true
		}
	}
	isShrink := bname == "aofshrink" || (bname == "timeout" && len(args) > 2 && strings.ToLower(args[2]) == "aofshrink")
	shrinksBefore := n.shrinks.Load()
	c.Case()
	res := execCell(o)
	oc := outcomeClass(res)
	e.record(md.sub, md.name, cc.v, cc.info.Name, oc)
	c.Label("mode:" + md.name + "/" + oc)
	c.Label("variant:" + string(cc.v))
	if res.DialErr != "" || res.PrepErr != "" {
		harnessFatal(t, "%s: cannot run %s: %s%s", md.name, t38.CmdString(w), res.DialErr, res.PrepErr)
	}
	if res.Hang {
		c.Inconclusive("%s: no reply within %s to %s", md.name, replyTimeout, t38.CmdString(w))
		return nil
	}
	if isShrink && res.HaveReply && !res.IsErr {
		if !n.waitShrinks(shrinksBefore+1, 30*time.Second) {
			c.Inconclusive("%s: AOFSHRINK did not finish within 30s", md.name)
		}
	}
	after, err := n.snapshot()
	if err != nil {
		harnessFatal(t, "%v", err)
	}
	dumpChanged := after.Dump != n.base.Dump
	aofChanged := after.AOF != n.base.AOF && !isShrink
	fpChanged := after.FP != n.wantFP
	fail := func(rule, what string) {
		rp := cc.replay(md.name, w)
		c.Fail(t, "gate:"+md.name+":"+rule+":"+cc.info.Name,
			fmt.Sprintf("%s, %s: %s -> %s; %s", md.name, cc.v, t38.CmdString(w), clip(res.First, 160), what), rp)
	}
	var out *refInfo
	switch md.kind {
	case mLeader:
		out = &refInfo{res: res, ok: true, afterDump: after.Dump}
		out.mutates = dumpChanged || aofChanged
		out.serves = res.HaveReply && !res.IsErr && res.Leak != ""
		g := e.groups[bname]
		out.docRead = (g == "keys" || g == "search") && !out.mutates && res.HaveReply && !res.IsErr
		if out.mutates {
			c.Label("ref:mutates")
		}
		if out.serves {
			c.Label("ref:returns-stored-data")
		}
		if out.docRead {
			c.Label("ref:documented-read-answered")
		}
		if out.mutates || out.serves {
			c.NonTrivial(fmt.Sprintf("%s|%s|m=%v|s=%v|%s", cc.v, cc.info.Name, out.mutates, out.serves, oc))
			e.keepSample(md.sub, cc.info.Name, map[string]any{"cmd": t38.CmdString(w), "reply": res.First, "mutates": out.mutates, "returns_data": out.serves})
		}
	case mFollower, mReadOnly, mNCU:
		if ref.mutates {
			c.Label("checked:write-refused")
			c.NonTrivial(fmt.Sprintf("%s|%s|%s|write|%s", md.name, cc.v, cc.info.Name, oc))
			if !res.IsErr {
				fail("write-accepted", "this command changes the dataset or the log on a leader, but was not answered with an error here")
			}
			e.keepSample(md.sub, cc.info.Name, map[string]any{"mode": md.name, "cmd": t38.CmdString(w), "reply": res.First, "leader_reply": ref.res.First})
		}
		if (dumpChanged || aofChanged) && md.kind == mFollower && n.follows != nil {
			// did somebody else write to the follower's leader? (a foreign client
			// on the leader's port replicates here: not this cell's doing)
			if ld, err := t38.TakeDumpOn(n.follows.admin); err == nil && ld.Canon() != e.prepared {
				c.Inconclusive("caught-up follower mode dropped: the follower's LEADER changed during %s although this check never writes to it (foreign client?)", t38.CmdString(w))
				var keep []*mode
				for _, m2 := range e.modes {
					if m2.kind != mFollower {
						keep = append(keep, m2)
					}
				}
				e.modes = keep
				e.f.stopAsync()
				e.l2.stopAsync()
				e.f, e.l2 = nil, nil
				return nil
			}
		}
		if dumpChanged || aofChanged {
			fail("state-changed", fmt.Sprintf("dataset/log changed on a server that must not accept writes (dump changed=%v, aof %d -> %d)", dumpChanged, n.base.AOF, after.AOF))
		}
		if md.kind == mNCU {
			aofStream := bname == "aof" || (len(args) > 2 && bname == "timeout" && strings.ToLower(args[2]) == "aof")
			dataRead := ref.dataDep && !ncuAdmin[bname] && ref.res.HaveReply && !ref.res.IsErr
			if dataRead {
				c.Label("checked:data-dependent-reply-refused-while-catching-up")
			}
			if (ref.serves || ref.docRead || dataRead) && !aofStream {
				c.Label("checked:read-refused-while-catching-up")
				e.keepSample(md.sub, cc.info.Name, map[string]any{"mode": md.name, "cmd": t38.CmdString(w), "reply": res.First, "leader_reply": ref.res.First})
				c.NonTrivial(fmt.Sprintf("%s|%s|%s|read|%s", md.name, cc.v, cc.info.Name, oc))
				if !res.IsErr {
					fail("read-served", "a follower that never caught up answered a command that reads objects on a leader")
				}
				if cc.v.direct() || cc.v == vTimeout {
					if !strings.Contains(res.ErrMsg, "catching up to leader") && !strings.Contains(res.ErrMsg, "not the leader") {
						fail("read-wrong-refusal", "expected the 'catching up to leader' (or 'not the leader') refusal, got "+res.ErrMsg)
					}
				}
			}
			if res.Leak != "" {
				if aofStream {
					c.Label("impl-mirrored:aof-stream-served-while-catching-up")
				} else {
					fail("data-leak", "reply of a follower that never caught up contains stored data ("+res.Leak+")")
				}
			}
			e.ncuBatch = append(e.ncuBatch, cc.replay(md.name, w))
		}
	case mPwUnauth, mPwStale:
		c.Label("checked:unauthenticated")
		if md.kind == mPwStale {
			c.Label("checked:unauthenticated-preexisting-connection")
		}
		isExempt := exempt[bname] && cc.v.direct()
		if ref.mutates || ref.serves || bname == "auth" {
			c.NonTrivial(fmt.Sprintf("%s|%s|%s|%s", md.name, cc.v, cc.info.Name, oc))
			e.keepSample(md.sub, cc.info.Name, map[string]any{"mode": md.name, "cmd": t38.CmdString(w), "reply": res.First, "probe_after": res.ProbeText, "leader_reply": ref.res.First})
		}
		if !isExempt && !res.IsErr {
			fail("unauthenticated-served", "no password was given, the command is not one of PING ECHO QUIT OUTPUT HEALTHZ AUTH, and the reply is not an error")
		}
		if res.Leak != "" {
			fail("unauthenticated-leak", "reply to an unauthenticated connection contains stored data ("+res.Leak+"): "+res.Raw)
		}
		if dumpChanged || aofChanged || fpChanged {
			fail("unauthenticated-changed-state", fmt.Sprintf("unauthenticated command changed the server (dump=%v aof=%v settings=%v: %s -> %s)", dumpChanged, aofChanged, fpChanged, n.wantFP, after.FP))
		}
		if res.Probed {
			switch {
			case expectAuth:
				c.Label("auth:correct-password-accepted")
			case bname == "auth":
				c.Label("checked:wrong-password")
				c.NonTrivial(fmt.Sprintf("%s|%s|wrongpw|%q", md.name, cc.v, args))
				if !res.ProbeErr {
					fail("wrong-password-authenticated", "after this AUTH the connection could read data: "+res.ProbeText)
				}
			default:
				if !res.ProbeErr {
					fail("authenticated-without-auth", "after this command the connection could read data: "+res.ProbeText)
				}
			}
			if !expectAuth && res.ProbeErr && !strings.Contains(res.ProbeText, "authentication required") && !strings.HasPrefix(res.ProbeText, "closed") {
				c.Label("probe-refused-with-other-error")
			}
		}
		if isExempt {
			c.Label("exempt:" + bname + "/" + oc)
		}
	case mPwAuth, mProtLoop:
		c.Label("checked:behaves-like-leader")
		if ref.mutates || ref.serves {
			c.NonTrivial(fmt.Sprintf("%s|%s|%s|%s", md.name, cc.v, cc.info.Name, oc))
		}
		if bname != "auth" && res.IsErr != ref.res.IsErr {
			fail("differs-from-leader", fmt.Sprintf("an authorised connection got a reply of a different class than on a plain leader (%s)", clip(ref.res.First, 120)))
		}
		if after.Dump != ref.afterDump {
			fail("differs-from-leader-state", "dataset after the command differs from the plain leader's")
		}
	}
	// put the node back
	if fpChanged {
		if err := n.restoreConfig(); err != nil {
			harnessFatal(t, "%v", err)
		}
	}
	if dumpChanged && !n.ncu && n.follows == nil {
		if err := n.load(e.loadCmds); err != nil {
			harnessFatal(t, "%v", err)
		}
	}
	if fpChanged || dumpChanged || after.AOF != n.base.AOF {
		s, err := n.snapshot()
		if err != nil {
			harnessFatal(t, "%v", err)
		}
		if s.FP != n.wantFP || (!n.ncu && s.Dump != e.prepared) {
			harnessFatal(t, "%s could not be restored after %s (settings %s, want %s)", n.name, t38.CmdString(w), s.FP, n.wantFP)
		}
		n.base = s
	}
	if md.kind == mNCU && len(e.ncuBatch) >= e.ncuMax {
		e.finishNCUBatch(t, cc.extras)
	}
	return out
}

// finishNCUBatch deep-checks the never-caught-up follower after a batch of
// cells, pinpoints the cell on a mismatch, and boots a fresh follower.
func (e *env) finishNCUBatch(t failer, extras [][]string) {
	if e.ncu == nil {
		return
	}
	c := e.cs["catchingup"]
	batch := e.ncuBatch
	diff, err := e.deepCheckNCU()
	if err != nil {
		harnessFatal(t, "deep check: %v", err)
	}
	c.Label("ncu-deep-checks")
	if diff != "" {
		// pinpoint: one fresh follower per cell
		for _, cell := range batch {
			if err := e.startNCU(); err != nil {
				harnessFatal(t, "%v", err)
			}
			e.execReplayCellOnNCU(cell)
			d, err := e.deepCheckNCU()
			if err != nil {
				harnessFatal(t, "%v", err)
			}
			if d != "" {
				cell.Extras = extras
				c.Fail(t, "gate:follower-never-caught-up:state-changed:"+cell.Cmd,
					fmt.Sprintf("follower that never caught up: in-memory dataset changed by %s: %s", cell.Sent, d), cell)
			}
		}
		c.Fail(t, "gate:follower-never-caught-up:state-changed:batch",
			"follower that never caught up: in-memory dataset changed during a batch of commands: "+diff,
			cellReplay{Mode: "follower-never-caught-up", Batch: batch, Extras: extras})
	}
	if err := e.startNCU(); err != nil {
		harnessFatal(t, "%v", err)
	}
}

func (e *env) execReplayCellOnNCU(cell cellReplay) result {
	args := e.resolve(cell.Args, mNCU)
	w, preload := wire(variant(cell.Variant), args)
	if preload != "" {
		e.ncu.do("SCRIPT", "LOAD", preload)
	}
	return execCell(execOpts{addr: e.ncu.srv.Addr, v: variant(cell.Variant), wire: w, httpAuth: "cnrAnyAuth"})
}

// runNonLoopback connects from 127.0.0.2 to the protected server and sends
// the command and a pipelined write in one segment.
func (e *env) runNonLoopback(t failer, md *mode, cc cellCtx, w []string, ref *refInfo) {
	c := e.cs[md.sub]
	n := md.n
	c.Case()
	t38.JournalNote("c15 non-loopback " + t38.CmdString(w))
	var payload []byte
	if cc.v.http() {
		payload = httpRequest(w, "cnrAnyAuth", cc.v == vHTTP)
	} else {
		if cc.v == vJSON {
			payload = append(payload, t38.EncodeCmd("OUTPUT", "json")...)
		}
		payload = append(payload, t38.EncodeCmd(w...)...)
	}
	payload = append(payload, t38.EncodeCmd("SET", "cnrK1", "cnrPIPELINED", "POINT", "1", "1")...)
	raw, rerr, derr := nonLoopbackExchange(n.srv.Addr, payload)
	if derr != nil {
		c.Inconclusive("cannot connect from 127.0.0.2: %v", derr)
		c.Label("mode:" + md.name + "/dial-error")
		return
	}
	oc := "denied"
	okDenied := strings.HasPrefix(string(raw), "-DENIED ") && strings.HasSuffix(string(raw), "\r\n") && strings.Count(string(raw), "\n") == 1
	if !okDenied {
		oc = "not-denied"
	}
	e.record(md.sub, md.name, cc.v, cc.info.Name, oc)
	c.Label("mode:" + md.name + "/" + oc)
	c.Label("checked:non-loopback-denied")
	if ref != nil && (ref.mutates || ref.serves) {
		c.NonTrivial(fmt.Sprintf("%s|%s|%s|%s", md.name, cc.v, cc.info.Name, oc))
		e.keepSample(md.sub, cc.info.Name, map[string]any{"mode": md.name, "sent_in_one_segment": t38.CmdString(w) + " ; SET cnrK1 cnrPIPELINED POINT 1 1", "received": clip(string(raw), 60), "leader_reply": ref.res.First})
	}
	after, err := n.snapshot()
	if err != nil {
		harnessFatal(t, "%v", err)
	}
	fail := func(rule, what string) {
		c.Fail(t, "gate:"+md.name+":"+rule, fmt.Sprintf("%s, %s: %s + pipelined SET -> %q; %s", md.name, cc.v, t38.CmdString(w), clip(string(raw), 120), what), cc.replay(md.name, w))
	}
	if after.Dump != n.base.Dump || after.AOF != n.base.AOF || after.FP != n.wantFP {
		fail("non-loopback-changed-state", "a command from a non-loopback peer had an effect on a protected server")
	}
	if f := findSecret(raw); f != "" {
		fail("non-loopback-leak", "stored data sent to a non-loopback peer")
	}
	if !okDenied {
		if rerr != nil && len(raw) < 8 || (strings.HasPrefix("-DENIED ", string(raw)) && rerr != nil) {
			// connection reset before the refusal could be read
			c.Inconclusive("non-loopback peer: connection reset before the refusal was read (%d bytes, %v)", len(raw), rerr)
			return
		}
		if strings.HasPrefix(string(raw), "-DENIED ") && rerr != nil && !strings.Contains(string(raw), "\n") {
			c.Inconclusive("non-loopback peer: refusal cut by a reset (%d bytes, %v)", len(raw), rerr)
			return
		}
		fail("non-loopback-not-denied", "expected exactly the -DENIED line and end of stream")
	}
}

// ---- the matrix -------------------------------------------------------------------

var subRules = map[string]string{
	"leader": "reference run of every cell on a plain leader holding the prepared canary dataset; cell = (command of the table enumerated from the dispatch switch of server.go + commands.json, one deterministic data-hitting shape and one generated shape per command and case, variant in {plain, OUTPUT json, TIMEOUT-wrapped, EVAL/EVALRO/EVALNA and their SHA forms around \"return tile38.call(...)\", HTTP with and without Authorization header}). Observed: reply class, dataset dump and aof_size before/after, secret canary tokens in the reply. Non-trivial: the run changes dump/aof (mutates) or returns canary data; distinct by (variant, command, mutates, returns-data, outcome class).",
	"writes": "each cell re-run on a caught-up follower (real leader in-process, FOLLOW, caught_up) and on a READONLY yes server holding the same dataset. Oracle: if the reference run mutates, the reply here is an error; dump and aof_size never change. Non-trivial: cells whose reference run mutates; distinct by (mode, variant, command, outcome class).",
	"catchingup": "each cell re-run on a follower started on a data directory holding the prepared dataset whose config file names a bound-but-not-listening port (never caught up). Oracle: mutating cells answer an error; cells that return canary data or are documented keys/search reads answered without error on the leader must answer an error ('catching up to leader' for direct and TIMEOUT forms); no reply contains a canary token; the log file and STATS of every key stay unchanged per cell and the in-memory dataset is compared after every batch (FOLLOW no one + dump), with per-cell pinpointing on mismatch. Non-trivial: mutating or data-returning cells; distinct by (variant, command, kind, outcome class).",
	"auth": "each cell re-run on servers with requirepass (one from the config file, one via CONFIG SET) on an unauthenticated connection and on a connection that sent AUTH first (HTTP: wrong/no header vs right header), and, on the CONFIG SET server, on PRE-EXISTING connections: batches of connections are opened while no password is configured, each runs one generated gated command (plain, after OUTPUT json, TIMEOUT-wrapped, or inside EVAL/EVALRO/EVALNA), then requirepass is set and every RESP cell is run on such a connection that never sent AUTH (same oracle as unauthenticated). Unauthenticated oracle: every command except direct PING ECHO QUIT OUTPUT HEALTHZ AUTH answers an error; dump, aof_size and settings unchanged; no canary token in any byte received; a following GET on the same connection is refused unless the cell was AUTH with the configured password (after trimming); generated wrong passwords never authenticate. Authenticated oracle: same reply class and same resulting dataset as the plain leader. Non-trivial: cells that mutate or return data on the leader, and wrong-password cells; distinct by (mode, variant, command, outcome).",
	"protected": "each cell re-run on a server started in protected mode without password: from 127.0.0.1 it must behave like the plain leader (reply class, resulting dataset); from source address 127.0.0.2 the command plus a pipelined SET are written in one segment and the peer must receive exactly the -DENIED line and end of stream while dump/aof_size/settings stay unchanged. Non-trivial: cells that mutate or return data on the leader; distinct by (mode, variant, command, outcome).",
}

func newCollectors(t *testing.T) map[string]*ev.Collector {
	cs := map[string]*ev.Collector{}
	for sub, rule := range subRules {
		c := ev.New("C15", sub, "exploration")
		c.Rule(rule)
		cs[sub] = c
	}
	cs["catchingup"].Assume("STATS and the AOF replication stream are not 'object reads or searches': a never-caught-up follower answers them (labelled impl-mirrored)")
	cs["leader"].Assume("AOFSHRINK rewrites the log without changing the dataset: its aof_size change is not counted as a data modification")
	return cs
}

// runMatrix runs every cell of the matrix once with freshly drawn shapes.
func runMatrix(rt *rapid.T, e *env, only map[string]bool) {
	extras := drawExtras(rt, ev.Pick(2, 5))
	pool := keyspacePool(rt)
	e.priming = drawPriming(rt)
	type shaped struct {
		info   cmdInfo
		shapes [][]string
	}
	var plan []shaped
	for _, ci := range e.table {
		if only != nil && !only[ci.Name] {
			continue
		}
		s := shaped{info: ci}
		if h, ok := hitShapes[ci.Name]; ok {
			s.shapes = append(s.shapes, h)
		}
		if en := enumShapes(ci.Name, e.sc); en != nil {
			s.shapes = append(s.shapes, en...)
		} else {
			for i := 0; i < 1; i++ { // one generated shape per command and pass in both tiers (thorough adds passes, all SHA forms, more extras)
				s.shapes = append(s.shapes, drawShape(rt, ci.Name, pool, e.sc))
			}
		}
		plan = append(plan, s)
	}
	e.prepare(rt, extras)
	for _, p := range plan {
		if !hasGrammar(p.info.Name) {
			e.cs["leader"].Label("no-grammar:" + p.info.Name)
		}
		for si, shape := range p.shapes {
			_, isHit := hitShapes[p.info.Name]
			for _, v := range allVariants {
				if _, sha, _ := v.script(); sha && !ev.Thorough() && !(isHit && si == 0) {
					continue // quick tier: SHA forms only for the data-hitting shapes
				}
				cc := cellCtx{info: p.info, v: v, base: shape, extras: extras}
				ref := e.runCell(rt, e.modes[0], cc, nil)
				if ref == nil || !ref.ok {
					continue
				}
				e.runEmpty(rt, cc, ref)
				for _, md := range e.modes[1:] {
					e.runCell(rt, md, cc, ref)
				}
			}
		}
	}
	if e.ncu != nil {
		e.finishNCUBatch(rt, extras)
	}
}

func TestC15_Matrix(t *testing.T) {
	cs := newCollectors(t)
	for _, c := range cs {
		t.Cleanup(c.Flush)
	}
	e := newEnv(t, cs, nil)
	t.Cleanup(e.close)
	t.Cleanup(e.flushMatrix)
	for _, ci := range e.table {
		cs["leader"].Label("table:" + ci.Source)
	}
	cs["leader"].Note("command table: %d names enumerated at run time", len(e.table))
	ev.Rapid("matrix", ev.Pick(1, 2))
	rapid.Check(t, func(rt *rapid.T) {
		runMatrix(rt, e, nil)
	})
}

// ---- regression probes ----------------------------------------------------------------

// TestC15_Regress: JDEL must be refused on a follower and on a read-only
// server (finding jdel-not-a-write), directly and from a script.
func TestC15_Regress(t *testing.T) {
	c := ev.New("C15", "regress", "exploration")
	t.Cleanup(c.Flush)
	c.Rule("deterministic probes of repaired defects: JDEL k id path (direct, JSON, TIMEOUT, EVAL/EVALNA-wrapped) on a caught-up follower, a never-caught-up follower and a READONLY server must answer an error and leave dump and aof_size unchanged although it deletes the path on a leader")
	cs := newCollectors(t)
	cs["regress"] = c
	e := newEnv(t, cs, map[modeKind]bool{mFollower: true, mReadOnly: true, mNCU: true})
	t.Cleanup(e.close)
	for _, m := range e.modes {
		if m.kind != mLeader {
			m.sub = "regress"
		}
	}
	e.modes[0].sub = "regress"
	e.prepare(t, nil)
	const id = "jdel-not-a-write"
	known := ev.KnownActive(id)
	info := cmdInfo{Name: "jdel", Group: "keys"}
	for _, v := range []variant{vPlain, vJSON, vHTTP, vEval, vEvalNA} {
		cc := cellCtx{info: info, v: v, base: []string{"JDEL", "cnrK3", "cnrIb", "a.b"}}
		w, _ := wire(v, cc.base)
		// reference: on the leader the path is deleted
		refRes := execCell(execOpts{addr: e.ref.srv.Addr, v: v, wire: w, httpAuth: "x"})
		after, err := e.ref.snapshot()
		if err != nil {
			t.Fatalf("HARNESS: %v", err)
		}
		refMut := after.Dump != e.ref.base.Dump
		if err := e.ref.load(e.loadCmds); err != nil {
			t.Fatalf("HARNESS: %v", err)
		}
		if s, err := e.ref.snapshot(); err == nil {
			e.ref.base = s
		}
		if v.direct() && !refMut {
			t.Fatalf("HARNESS: JDEL probe does not delete anything on the leader (%s)", refRes.First)
		}
		for _, md := range e.modes[1:] {
			c.Case()
			n := md.n
			res := execCell(execOpts{addr: n.srv.Addr, v: v, wire: w, httpAuth: "x"})
			s, err := n.snapshot()
			if err != nil {
				t.Fatalf("HARNESS: %v", err)
			}
			c.Label(md.name + "/" + string(v) + "/" + outcomeClass(res))
			if refMut {
				c.NonTrivial(md.name + "|" + string(v))
			}
			bad := ""
			if !res.IsErr {
				bad = "JDEL answered " + res.First
			} else if s.Dump != n.base.Dump || s.AOF != n.base.AOF {
				bad = "JDEL was refused but changed the server"
			}
			if bad != "" {
				what := fmt.Sprintf("%s, %s: %s: %s", md.name, v, t38.CmdString(w), bad)
				if known {
					c.Known(id, what)
				} else {
					c.Violation(id, what, cc.replay(md.name, w))
					t.Errorf("VIOLATION-CANDIDATE key=%s: %s", id, what)
				}
				e.prepare(t, nil) // the probe had an effect: start the next one from the prepared state again
			}
		}
	}
	// finding follower-not-caught-up-serves-test: TEST GET ... and STATS read stored
	// objects and were missing from the catching-up class
	if e.ncu != nil {
		const id2 = "follower-not-caught-up-serves-test"
		reportedTest := false
		for _, base := range [][]string{
			{"TEST", "GET", "cnrK1", "cnrIa", "INTERSECTS", "CLIP", "BOUNDS", "-90", "-180", "90", "180"},
			{"TEST", "GET", "cnrK1", "cnrIa", "WITHIN", "BOUNDS", "-90", "-180", "90", "180"},
			{"STATS", "cnrK1"}, {"STATS", "cnrK1", "cnrK3", "cnrSECRETkey"},
		} {
			for _, v := range []variant{vPlain, vJSON, vTimeout, vHTTP} {
				w, _ := wire(v, base)
				if v.http() && !httpRepresentable(w) {
					continue
				}
				c.Case()
				lead := execCell(execOpts{addr: e.ref.srv.Addr, v: v, wire: w, httpAuth: "x"})
				res := execCell(execOpts{addr: e.ncu.srv.Addr, v: v, wire: w, httpAuth: "x"})
				c.Label("never-caught-up/" + strings.ToLower(base[0]) + "/" + string(v) + "/" + outcomeClass(res))
				if !lead.IsErr {
					c.NonTrivial("ncu-test-stats|" + string(v) + "|" + t38.CmdString(base))
				}
				if !res.IsErr || !strings.Contains(res.ErrMsg, "catching up") || res.Leak != "" {
					what := fmt.Sprintf("follower that never caught up, %s: %s -> %s (leader: %s)", v, t38.CmdString(w), clip(res.First, 160), clip(lead.First, 80))
					if ev.KnownActive(id2) {
						c.Known(id2, what)
					} else {
						if !reportedTest {
							reportedTest = true
							c.Violation(id2, what, cellReplay{Mode: "follower-never-caught-up", Variant: string(v), Cmd: strings.ToLower(base[0]), Args: base})
							t.Errorf("VIOLATION-CANDIDATE key=%s: %s", id2, what)
						}
						c.Label("probe-failed:" + strings.ToLower(base[0]) + "/" + string(v))
					}
				}
			}
		}
	}
	if diff, err := e.deepCheckNCU(); err != nil {
		t.Fatalf("HARNESS: %v", err)
	} else if diff != "" {
		what := "JDEL changed the in-memory dataset of a follower that never caught up: " + diff
		if known {
			c.Known(id, what)
		} else {
			c.Violation(id, what, nil)
			t.Errorf("VIOLATION-CANDIDATE key=%s: %s", id, what)
		}
	}
}

// ---- replay ----------------------------------------------------------------------------

func TestReplay(t *testing.T) {
	doc, ok := ev.ReplayFile()
	if !ok {
		t.Skip("no replay file")
	}
	if doc.Check == "gatestate" {
		c := ev.New("C15", "replay", "exploration")
		t.Cleanup(c.Flush)
		var plan gatePlan
		if err := json.Unmarshal(doc.Data, &plan); err != nil {
			t.Fatalf("bad replay data: %v", err)
		}
		replayGatePlan(t, c, plan)
		return
	}
	if doc.Check == "prothistory" {
		c := ev.New("C15", "replay", "exploration")
		t.Cleanup(c.Flush)
		var plan histPlan
		if err := json.Unmarshal(doc.Data, &plan); err != nil {
			t.Fatalf("bad replay data: %v", err)
		}
		replayHistory(t, c, plan)
		return
	}
	if doc.Check == "roleflip" {
		c := ev.New("C15", "replay", "exploration")
		t.Cleanup(c.Flush)
		replayFlips(t, c, doc.Data)
		return
	}
	var cell cellReplay
	if err := json.Unmarshal(doc.Data, &cell); err != nil {
		t.Fatalf("bad replay data: %v", err)
	}
	cs := newCollectors(t)
	cs["regress"] = ev.New("C15", "replay", "exploration")
	for _, c := range cs {
		t.Cleanup(c.Flush)
	}
	e := newEnv(t, cs, nil)
	t.Cleanup(e.close)
	e.prepare(t, cell.Extras)
	info := cmdInfo{Name: cell.Cmd, Group: e.groups[cell.Cmd]}
	run := func(variantName string, args []string) {
		cc := cellCtx{info: info, v: variant(variantName), base: args, extras: cell.Extras}
		ref := e.runCell(t, e.modes[0], cc, nil)
		if ref == nil {
			return
		}
		for _, md := range e.modes[1:] {
			if cell.Mode == "" || md.name == cell.Mode {
				e.runCell(t, md, cc, ref)
			}
		}
	}
	if len(cell.Args) > 0 {
		run(cell.Variant, cell.Args)
	}
	for _, bc := range cell.Batch {
		info = cmdInfo{Name: bc.Cmd, Group: e.groups[bc.Cmd]}
		cell.Mode = bc.Mode
		run(bc.Variant, bc.Args)
	}
	if e.ncu != nil {
		e.finishNCUBatch(t, cell.Extras)
	}
}

// TestC15_DevMode records (without judging) what the developer-only command
// MASSINSERT does on a read-only server and on a follower that were started
// with the --dev flag: it is dispatched outside the write class. DevMode is
// not a production configuration, so the outcome is mirrored, not reported.
func TestC15_DevMode(t *testing.T) {
	c := ev.New("C15", "devmode", "exploration")
	t.Cleanup(c.Flush)
	c.Rule("deterministic probe, outcome recorded only (impl-mirrored): MASSINSERT 1 1 on servers started in developer mode (READONLY yes; caught-up follower). Non-trivial: the command is accepted on a leader in developer mode.")
	lead, err := startNode("dev-leader", t38.Opts{DevMode: true})
	if err != nil {
		t.Fatalf("HARNESS: %v", err)
	}
	lead.keepRunning = true
	defer lead.stopAsync()
	ro, err := startNode("dev-readonly", t38.Opts{DevMode: true})
	if err != nil {
		t.Fatalf("HARNESS: %v", err)
	}
	defer ro.stopAsync()
	fo, err := startNode("dev-follower", t38.Opts{DevMode: true})
	if err != nil {
		t.Fatalf("HARNESS: %v", err)
	}
	defer fo.stopAsync()
	if err := ro.mustOK("READONLY", "yes"); err != nil {
		t.Fatalf("HARNESS: %v", err)
	}
	if err := fo.mustOK("FOLLOW", "127.0.0.1", itoa(lead.srv.Port)); err != nil {
		t.Fatalf("HARNESS: %v", err)
	}
	deadline := time.Now().Add(30 * time.Second)
	for {
		v, _ := fo.do("SERVER")
		if serverMap(v)["caught_up"] == "true" {
			break
		}
		if time.Now().After(deadline) {
			c.Inconclusive("developer-mode follower did not catch up within 30s")
			return
		}
		time.Sleep(5 * time.Millisecond)
	}
	for _, n := range []*node{ro, fo} {
		c.Case()
		before, err := n.snapshot()
		if err != nil {
			t.Fatalf("HARNESS: %v", err)
		}
		res := execCell(execOpts{addr: n.srv.Addr, v: vPlain, wire: []string{"MASSINSERT", "1", "1"}})
		after, err := n.snapshot()
		if err != nil {
			t.Fatalf("HARNESS: %v", err)
		}
		changed := after.Dump != before.Dump || after.AOF != before.AOF
		c.NonTrivial(n.name)
		if res.IsErr && !changed {
			c.Label("devmode-massinsert-refused:" + n.name)
		} else {
			c.Label(fmt.Sprintf("impl-mirrored:devmode-massinsert-bypasses-gate:%s:changed=%v", n.name, changed))
		}
		c.Sample(map[string]any{"server": n.name, "cmd": "MASSINSERT 1 1", "reply": res.First, "dataset_or_log_changed": changed})
	}
}

// ---- connections that exist before the password does ------------------------------------

var primingForms = []string{"plain", "json", "timeout", "eval", "evalro", "evalna"}

var defaultPriming = [][]string{
	{"GET", "cnrK1", "cnrIa"}, {"SCAN", "cnrK3"}, {"SET", "cnrK1", "cnrIa", "POINT", "1", "2"}, {"KEYS", "*"},
	{"DEL", "cnrK2", "cnrIb"}, {"NEARBY", "cnrK1", "POINT", "33.6", "-115.6"}, {"SERVER"},
}

// drawPriming draws the gated commands the pre-existing connections run
// while no password is configured (keyspace commands and searches).
func drawPriming(rt *rapid.T) [][]string {
	var out [][]string
	for i := 0; i < 18; i++ {
		if rapid.IntRange(0, 3).Draw(rt, "primekind") == 0 {
			out = append(out, searchCmd(rt, pick(rt, "primesearch", "scan", "search", "nearby", "within", "intersects"), false))
		} else {
			out = append(out, gen.KeyspaceCmd(rt, ns))
		}
	}
	return out
}

func (e *env) dropStale() {
	for _, p := range e.stale {
		p.nc.Close()
	}
	e.stale = nil
}

// refillStale removes the password of the CONFIG SET server, opens a batch
// of connections that each run one generated gated command (plain, after
// OUTPUT json, TIMEOUT-wrapped, or from an EVAL/EVALRO/EVALNA script), sets
// the password again and puts the dataset back. None of these connections
// ever sent AUTH.
func (e *env) refillStale(t failer) {
	n := e.pwSet
	if err := n.mustOK("CONFIG", "SET", "requirepass", ""); err != nil {
		harnessFatal(t, "%v", err)
	}
	priming := e.priming
	if len(priming) == 0 {
		priming = defaultPriming
	}
	batch := ev.Pick(150, 300)
	for i := 0; i < batch; i++ {
		p, err := dialPre(n.srv.Addr)
		if err != nil {
			harnessFatal(t, "pre-existing connection: %v", err)
		}
		cmd := priming[e.staleN%len(priming)]
		form := primingForms[(e.staleN/len(priming)+e.staleN)%len(primingForms)]
		e.staleN++
		var w []string
		switch form {
		case "plain":
			w = cmd
		case "json":
			if _, err := p.do("OUTPUT", "json"); err != nil {
				harnessFatal(t, "pre-existing connection: %v", err)
			}
			w = cmd
		case "timeout":
			w = append([]string{"TIMEOUT", "100"}, cmd...)
		default:
			w = []string{strings.ToUpper(form), luaCall(cmd), "0"}
		}
		if _, err := p.do(w...); err != nil {
			harnessFatal(t, "pre-existing connection %s: %v", t38.CmdString(w), err)
		}
		p.primed = form
		e.stale = append(e.stale, p)
	}
	if err := n.mustOK("CONFIG", "SET", "requirepass", n.pass); err != nil {
		harnessFatal(t, "%v", err)
	}
	s, err := n.snapshot()
	if err != nil {
		harnessFatal(t, "%v", err)
	}
	if s.Dump != e.prepared {
		if err := n.load(e.loadCmds); err != nil {
			harnessFatal(t, "%v", err)
		}
		if s, err = n.snapshot(); err != nil {
			harnessFatal(t, "%v", err)
		}
	}
	if s.Dump != e.prepared || (n.wantFP != "" && s.FP != n.wantFP) {
		harnessFatal(t, "%s not back in its mode after opening pre-existing connections (%s, want %s)", n.name, s.FP, n.wantFP)
	}
	n.base = s
}

func (e *env) takeStale(t failer) *preConn {
	if len(e.stale) == 0 {
		e.refillStale(t)
	}
	p := e.stale[len(e.stale)-1]
	e.stale = e.stale[:len(e.stale)-1]
	return p
}

// TestC15_PasswordChange records what happens to a connection that
// authenticated with a password that is then replaced (the server keeps the
// per-connection flag: mirrored, labelled), and checks that the old password
// no longer authenticates new connections while the new one does.
func TestC15_PasswordChange(t *testing.T) {
	c := ev.New("C15", "pwchange", "exploration")
	t.Cleanup(c.Flush)
	c.Rule("deterministic probe: connection A authenticates with password P1; CONFIG SET requirepass P2 (and: removed, then P2). Checked: a new connection is refused without AUTH and with P1, accepted with P2. Recorded only (impl-mirrored, the code never clears Client.authd): whether A is still served.")
	n, err := startNode("pwchange", t38.Opts{})
	if err != nil {
		t.Fatalf("HARNESS: %v", err)
	}
	defer n.stopAsync()
	const p1, p2 = "cnrpw-old", "cnrpw-new"
	n.pass = p1
	if err := n.mustOK("SET", "cnrK1", "cnrIa", "STRING", "cnrSECRETstring"); err != nil {
		t.Fatalf("HARNESS: %v", err)
	}
	for _, scenario := range []string{"changed", "removed-then-set"} {
		if err := n.mustOK("CONFIG", "SET", "requirepass", p1); err != nil {
			t.Fatalf("HARNESS: %v", err)
		}
		a, err := dialPre(n.srv.Addr)
		if err != nil {
			t.Fatalf("HARNESS: %v", err)
		}
		if v, err := a.do("AUTH", p1); err != nil || v.IsErr() {
			t.Fatalf("HARNESS: AUTH p1: %v %v", v, err)
		}
		if _, err := n.configFP(); err != nil { // authenticates the admin connection with p1
			t.Fatalf("HARNESS: %v", err)
		}
		if scenario == "removed-then-set" {
			n.mustOK("CONFIG", "SET", "requirepass", "")
		}
		if err := n.mustOK("CONFIG", "SET", "requirepass", p2); err != nil {
			t.Fatalf("HARNESS: %v", err)
		}
		n.pass = p2
		c.Case()
		c.NonTrivial(scenario)
		v, err := a.do("GET", "cnrK1", "cnrIa")
		served := err == nil && !v.IsErr()
		c.Label(fmt.Sprintf("impl-mirrored:connection-authenticated-with-old-password-still-served=%v:%s", served, scenario))
		c.Sample(map[string]any{"scenario": scenario, "old_connection_GET": clip(v.String(), 80)})
		a.nc.Close()
		for _, tc := range []struct {
			pw     string
			wantOK bool
		}{{"", false}, {p1, false}, {p2, true}} {
			c.Case()
			o := execOpts{addr: n.srv.Addr, v: vPlain, wire: []string{"GET", "cnrK1", "cnrIa"}, preAuth: tc.pw}
			res := execCell(o)
			got := res.PrepErr == "" && res.HaveReply && !res.IsErr
			c.Label(fmt.Sprintf("new-connection:auth=%q:served=%v", map[bool]string{true: "given", false: "none"}[tc.pw != ""], got))
			if got != tc.wantOK {
				what := fmt.Sprintf("after the password was %s from %s to %s: new connection with AUTH %q: served=%v (reply %s %s)", scenario, p1, p2, tc.pw, got, res.First, res.PrepErr)
				c.Violation("gate:password-change:new-connection", what, map[string]any{"scenario": scenario, "auth": tc.pw})
				t.Errorf("VIOLATION-CANDIDATE key=gate:password-change:new-connection: %s", what)
			}
		}
		n.pass = p2
		n.mustOK("CONFIG", "SET", "requirepass", p1)
		n.pass = p1
	}
}

// ---- data dependence (never-caught-up follower) -------------------------------------------

// ncuAdmin: commands a follower that has not caught up may answer although
// their reply differs between servers: connection and administration
// commands, and the replication stream (AOF/AOFMD5, needed by followers).
var ncuAdmin = map[string]bool{"ping": true, "echo": true, "output": true, "auth": true, "quit": true, "hello": true, "command": true,
	"aof": true, "aofmd5": true, "aofshrink": true, "gc": true, "client": true, "config": true, "follow": true, "slaveof": true,
	"replconf": true, "readonly": true, "script": true, "subscribe": true, "psubscribe": true, "publish": true, "monitor": true,
	"massinsert": true, "sleep": true, "shutdown": true}

// (the reply may be rendered quoted, with the inner quotes escaped)
var reElapsed = regexp.MustCompile(`\\?"elapsed\\?":\\?"[^"\\]*\\?"`)

func normReply(r result) string {
	return fmt.Sprintf("%v|%v|%s", r.HaveReply, r.IsErr, reElapsed.ReplaceAllString(r.First, ""))
}

// runEmpty runs the cell on a leader that holds no data. If its reply differs
// from the prepared leader's, the reply depends on the stored data: that is
// what a follower that never caught up must not answer, whichever command it
// is (no list of read commands).
func (e *env) runEmpty(t failer, cc cellCtx, ref *refInfo) {
	n := e.empty
	if n == nil || e.ncu == nil {
		return
	}
	args := e.resolve(cc.base, mLeader)
	w, preload := wire(cc.v, args)
	if cc.v.http() && !httpRepresentable(w) {
		return
	}
	if preload != "" {
		n.do("SCRIPT", "LOAD", preload)
	}
	bname := baseName(args)
	shrinks := n.shrinks.Load()
	res := execCell(execOpts{addr: n.srv.Addr, v: cc.v, wire: w, httpAuth: "cnrAnyAuth"})
	if bname == "aofshrink" && res.HaveReply && !res.IsErr {
		n.waitShrinks(shrinks+1, 30*time.Second)
	}
	ref.emptyNorm = normReply(res)
	ref.dataDep = ref.emptyNorm != normReply(ref.res)
	if ref.dataDep {
		e.cs["leader"].Label("ref:reply-depends-on-data")
	}
	// put the empty leader back: no data, default settings
	fp, err := n.configFP()
	if err != nil {
		harnessFatal(t, "%v", err)
	}
	dirty := fp != n.wantFP
	if v, err := n.do("SERVER"); err != nil || v.IsErr() {
		dirty = true
	} else if m := serverMap(v); m["num_objects"] != "0" || m["num_hooks"] != "0" || m["read_only"] == "true" || m["following"] != "" {
		dirty = true
	}
	if dirty {
		if err := n.restoreConfig(); err != nil {
			harnessFatal(t, "%v", err)
		}
		n.do("FLUSHDB")
	}
}

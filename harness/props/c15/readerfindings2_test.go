package c15

import (
	"bytes"
	"fmt"
	"io"
	"net"
	"strings"
	"testing"
	"time"

	"github.com/tidwall/tile38/verif/harness/ev"
	"github.com/tidwall/tile38/verif/harness/t38"
	"pgregory.net/rapid"
)

func reportFinding(t *testing.T, c *ev.Collector, id, what string, replay any) {
	t.Helper()
	if ev.KnownActive(id) {
		c.Known(id, what)
		return
	}
	c.Violation(id, what, replay)
	t.Errorf("VIOLATION-CANDIDATE key=%s: %s", id, what)
}

// ---- auth-accepts-padded-password ------------------------------------------------------------

// nearMisses are strings that are not pw but look like it.
func nearMisses(pw string) []string {
	out := []string{
		pw + " ", " " + pw, " " + pw + " ", "\t" + pw + "\r\n", pw + "\r\n", pw + "\n", "\n" + pw, pw + "\t", pw + "\x00", "\x00" + pw,
		pw + " ", " " + pw, "\v" + pw + "\f", strings.ToUpper(pw), strings.ToLower(pw), strings.Title(pw),
		pw[:len(pw)-1], pw[1:], pw + pw, pw + "x", "x" + pw, "", " ", "*", pw[:1], strings.Repeat(" ", len(pw)),
	}
	var uniq []string
	seen := map[string]bool{pw: true}
	for _, s := range out {
		if !seen[s] {
			seen[s] = true
			uniq = append(uniq, s)
		}
	}
	return uniq
}

// authenticates reports whether AUTH p on a fresh connection is accepted AND
// the connection can read afterwards.
func authenticates(addr, p string) (bool, string) {
	c, err := dialPre(addr)
	if err != nil {
		return false, "dial: " + err.Error()
	}
	defer c.nc.Close()
	v, err := c.do("AUTH", p)
	if err != nil {
		return false, "AUTH: " + err.Error()
	}
	g, err := c.do("GET", "pw", "obj")
	if err != nil {
		return false, "GET: " + err.Error()
	}
	ge, _ := replyErr(g)
	return !v.IsErr() || !ge, fmt.Sprintf("AUTH -> %s ; GET -> %s", clip(v.String(), 60), clip(g.String(), 60))
}

func TestC15_PaddedPassword(t *testing.T) {
	const id = "auth-accepts-padded-password"
	c := ev.New("C15", "paddedpw", "exploration")
	t.Cleanup(c.Flush)
	c.Rule("regression probe of finding " + id + " and near-miss generator: requirepass 'sekret' (and drawn passwords); AUTH with every near miss (blank/tab/CRLF/NUL/NBSP padding on either side, case changes, prefix, suffix, doubled, empty) on a fresh connection must be refused and the connection must not be able to read afterwards; the exact password must authenticate. Through the HTTP Authorization header the value is trimmed by design: a padded right password may pass (labelled), every other near miss must be refused. Non-trivial: every near miss; distinct by (password, candidate).")
	n, err := startNode("paddedpw", t38.Opts{})
	if err != nil {
		t.Fatalf("HARNESS: %v", err)
	}
	defer n.stopAsync()
	n.mustOK("SET", "pw", "obj", "STRING", "cnrSECRETstring")
	check := func(pw string) bool {
		n.pass = pw
		if err := n.mustOK("CONFIG", "SET", "requirepass", pw); err != nil {
			t.Fatalf("HARNESS: %v", err)
		}
		if _, err := n.configFP(); err != nil {
			t.Fatalf("HARNESS: %v", err)
		}
		c.Case()
		if ok, how := authenticates(n.srv.Addr, pw); !ok {
			reportFinding(t, c, "gate:padded-password:right-password-refused", fmt.Sprintf("requirepass %q: the exact password does not authenticate: %s", pw, how), nil)
			return false
		}
		for _, cand := range nearMisses(pw) {
			c.Case()
			c.NonTrivial(fmt.Sprintf("%q|%q", pw, cand))
			if ok, how := authenticates(n.srv.Addr, cand); ok {
				reportFinding(t, c, id, fmt.Sprintf("requirepass %q: AUTH %q authenticated although it is not the password: %s", pw, cand, how),
					map[string]any{"requirepass": pw, "auth": cand})
				return false
			}
			c.Label("near-miss-refused")
			// HTTP Authorization header (only representable values)
			if strings.ContainsAny(cand, "\r\n\x00") || cand == "" {
				continue
			}
			res := execCell(execOpts{addr: n.srv.Addr, v: vHTTP, wire: []string{"GET", "pw", "obj"}, httpAuth: cand})
			served := res.HaveReply && !res.IsErr
			if served && strings.TrimSpace(cand) == pw {
				c.Label("impl-mirrored:http-authorization-header-trimmed-by-design")
			} else if served {
				reportFinding(t, c, "gate:padded-password:http-near-miss-served", fmt.Sprintf("requirepass %q: HTTP request with Authorization: %q was served: %s", pw, cand, res.First), nil)
				return false
			}
		}
		return true
	}
	if !check("sekret") {
		return
	}
	ev.Rapid("paddedpw", ev.Pick(6, 30))
	rapid.Check(t, func(rt *rapid.T) {
		pw := rapid.StringMatching(`[a-zA-Z0-9_\-!.]{2,12}`).Draw(rt, "password")
		if !check(pw) {
			rt.Fatalf("VIOLATION-CANDIDATE (recorded)")
		}
	})
}

// ---- config-rewrite-changes-non-utf8-password -------------------------------------------------

// restartable server for the persistence law: a child process when the
// driver built the binary (restart = kill + start, ~50 ms), else in-process.
type persistSrv struct {
	dir  string
	proc *t38.Proc
	h    *histRun
}

func (p *persistSrv) start() error {
	if t38.ServerBin() != "" {
		pr, err := t38.StartProc(t38.Opts{Dir: p.dir})
		p.proc = pr
		return err
	}
	p.h = &histRun{dir: p.dir, prot: "no"}
	return p.h.start()
}

func (p *persistSrv) addr() string {
	if p.proc != nil {
		return p.proc.Addr
	}
	return p.h.n.srv.Addr
}

func (p *persistSrv) stop() {
	if p.proc != nil {
		p.proc.Stop()
		for i := 0; i < 2000 && p.proc.Alive(); i++ {
			time.Sleep(time.Millisecond)
		}
		p.proc = nil
		return
	}
	p.h.stopSync()
}

var persistPasswords = []string{
	"pw\xff\xfe", "\xc3\x28bad", "caf\xe9", "plain-ascii", "üñí-utf8-✓", `quo"te\back`, "tab\there", "sp ace", "\x01ctl", "a b", "{\"json\":1}", "<&>",
}

func TestC15_PasswordPersist(t *testing.T) {
	const id = "config-rewrite-changes-non-utf8-password"
	c := ev.New("C15", "pwpersist", "exploration")
	t.Cleanup(c.Flush)
	c.Rule("law behind finding " + id + ": CONFIG SET requirepass P (and leaderauth P) is either answered with an error and changes nothing, or is acknowledged; then after CONFIG REWRITE and a restart on the same directory AUTH P authenticates, CONFIG GET reports P byte for byte, and no other generated password authenticates (the U+FFFD-replaced form of P, padded forms, prefixes). P from a fixed list (invalid UTF-8, Latin-1 bytes, quotes and backslashes, control characters, U+2028, JSON and HTML metacharacters) plus drawn byte strings. Non-trivial: every password that was acknowledged and survived a restart.")
	one := func(pw string) (ok bool) {
		c.Case()
		srv := &persistSrv{dir: t38.NewDir("c15-pwpersist")}
		if err := srv.start(); err != nil {
			t.Fatalf("HARNESS: %v", err)
		}
		stopped := false
		defer func() {
			if !stopped {
				srv.stop()
			}
		}()
		admin, err := dialPre(srv.addr())
		if err != nil {
			t.Fatalf("HARNESS: %v", err)
		}
		admin.do("SET", "pw", "obj", "STRING", "cnrSECRETstring")
		la, err := admin.do("CONFIG", "SET", "leaderauth", pw)
		if err != nil {
			t.Fatalf("HARNESS: %v", err)
		}
		v, err := admin.do("CONFIG", "SET", "requirepass", pw)
		if err != nil {
			t.Fatalf("HARNESS: %v", err)
		}
		if v.IsErr() {
			c.Label("config-set-requirepass-refused")
			// refused: nothing changed, the server still has no password
			if g, _ := admin.do("CONFIG", "GET", "requirepass"); len(g.Arr) < 2 || g.Arr[1].Text() != "" {
				reportFinding(t, c, "gate:password-persist:refused-but-changed", fmt.Sprintf("CONFIG SET requirepass %q answered %s but CONFIG GET reports %s", pw, v.Str, g), nil)
				return false
			}
			admin.nc.Close()
			return true
		}
		c.Label("config-set-requirepass-acknowledged")
		if a, err := admin.do("AUTH", pw); err != nil || a.IsErr() {
			reportFinding(t, c, "gate:password-persist:set-password-refused", fmt.Sprintf("CONFIG SET requirepass %q was acknowledged but AUTH with it answers %v %v", pw, a, err), nil)
			return false
		}
		if r, err := admin.do("CONFIG", "REWRITE"); err != nil || r.IsErr() {
			t.Fatalf("HARNESS: CONFIG REWRITE: %v %v", r, err)
		}
		admin.nc.Close()
		srv.stop()
		if err := srv.start(); err != nil {
			t.Fatalf("HARNESS: restart: %v", err)
		}
		c.NonTrivial(fmt.Sprintf("%q", pw))
		replay := map[string]any{"password_bytes": fmt.Sprintf("%q", pw)}
		if okAuth, how := authenticates(srv.addr(), pw); !okAuth {
			reportFinding(t, c, id, fmt.Sprintf("CONFIG SET requirepass %q (acknowledged), CONFIG REWRITE, restart: AUTH with the same bytes is refused: %s", pw, how), replay)
			return false
		}
		cands := append(nearMisses(pw), strings.ToValidUTF8(pw, "�"), strings.ToValidUTF8(pw, ""), strings.ToValidUTF8(pw, "?"))
		for _, cand := range cands {
			if cand == pw {
				continue
			}
			c.Case()
			if okAuth, how := authenticates(srv.addr(), cand); okAuth {
				reportFinding(t, c, id, fmt.Sprintf("CONFIG SET requirepass %q, CONFIG REWRITE, restart: the different password %q authenticates: %s", pw, cand, how), replay)
				return false
			}
		}
		a2, err := dialPre(srv.addr())
		if err != nil {
			t.Fatalf("HARNESS: %v", err)
		}
		defer a2.nc.Close()
		a2.do("AUTH", pw)
		if g, _ := a2.do("CONFIG", "GET", "requirepass"); len(g.Arr) < 2 || g.Arr[1].Text() != pw {
			reportFinding(t, c, id, fmt.Sprintf("after CONFIG REWRITE and restart CONFIG GET requirepass reports %s, set was %q", g, pw), replay)
			return false
		}
		if !la.IsErr() {
			if g, _ := a2.do("CONFIG", "GET", "leaderauth"); len(g.Arr) < 2 || g.Arr[1].Text() != pw {
				reportFinding(t, c, id, fmt.Sprintf("CONFIG SET leaderauth %q was acknowledged; after CONFIG REWRITE and restart CONFIG GET leaderauth reports %s", pw, g), replay)
				return false
			}
		}
		stopped = true
		srv.stop()
		return true
	}
	n := ev.Pick(5, len(persistPasswords))
	for _, pw := range persistPasswords[:n] {
		if !one(pw) {
			return
		}
	}
	ev.Rapid("pwpersist", ev.Pick(6, 10))
	rapid.Check(t, func(rt *rapid.T) {
		var pw string
		switch rapid.IntRange(0, 3).Draw(rt, "pwclass") {
		case 0:
			pw = string(rapid.SliceOfN(rapid.Byte(), 1, 12).Draw(rt, "password_bytes"))
		case 1:
			pw = rapid.StringN(1, 10, 40).Draw(rt, "password_unicode")
		default:
			pw = rapid.StringOfN(rapid.RuneFrom([]rune("ab Z09\"'\\{}[]<>&%$#\t\u00e9\u2028\u4e16\x7f\x01")), 1, 10, -1).Draw(rt, "password_special")
		}
		if strings.TrimSpace(pw) == "" {
			pw = "x" + pw
		}
		if !one(pw) {
			rt.Fatalf("VIOLATION-CANDIDATE (recorded)")
		}
	})
}

// ---- client-kill-misses-live-connections ---------------------------------------------------------

type liveConn struct {
	kind  string
	nc    net.Conn
	local string
	buf   bytes.Buffer
}

// readUntilQuiet reads what arrives until nothing came for the given pause
// (or EOF); it returns whether EOF was reached.
func (l *liveConn) drain(pause time.Duration) (eof bool) {
	tmp := make([]byte, 32*1024)
	for {
		l.nc.SetReadDeadline(time.Now().Add(pause))
		n, err := l.nc.Read(tmp)
		l.buf.Write(tmp[:n])
		if err == io.EOF {
			return true
		}
		if err != nil {
			return !isTimeout(err)
		}
	}
}

func TestC15_ClientKillLive(t *testing.T) {
	const id = "client-kill-misses-live-connections"
	c := ev.New("C15", "clientkill", "exploration")
	t.Cleanup(c.Flush)
	c.Rule("regression probe of finding " + id + ": connections that went live (SUBSCRIBE, PSUBSCRIBE, live NEARBY FENCE, MONITOR, AOF 0; RESP and JSON mode) are listed by CLIENT LIST; CLIENT KILL ID <id> (and by address) must answer OK, the killed socket must reach EOF within the hang budget, and a following SET + PUBLISH delivers nothing more to it. Also with requirepass set after they were opened and then killed. Non-trivial: every kill of a live connection; distinct by (kind, mode, kill form).")
	n, err := startNode("clientkill", t38.Opts{})
	if err != nil {
		t.Fatalf("HARNESS: %v", err)
	}
	n.keepRunning = true // it had AOF stream connections moments ago
	defer n.stopAsync()
	n.mustOK("SET", "fleet", "seed", "POINT", "33", "-115")
	n.mustOK("SETCHAN", "livechan", "NEARBY", "fleet", "FENCE", "POINT", "33", "-115", "100000")
	kinds := map[string][]string{
		"subscribe":  {"SUBSCRIBE", "livechan"},
		"psubscribe": {"PSUBSCRIBE", "live*"},
		"fence":      {"NEARBY", "fleet", "FENCE", "POINT", "33", "-115", "100000"},
		"monitor":    {"MONITOR"},
		"aof":        {"AOF", "0"},
	}
	order := []string{"subscribe", "psubscribe", "fence", "monitor", "aof"}
	seq := 0
	for _, withPass := range []bool{false, true} {
		for _, jsonMode := range []bool{false, true} {
			for _, byAddr := range []bool{false, true} {
				var lives []*liveConn
				for _, k := range order {
					if jsonMode && (k == "monitor" || k == "aof") {
						continue // these streams have no JSON form
					}
					p, err := dialPre(n.srv.Addr)
					if err != nil {
						t.Fatalf("HARNESS: %v", err)
					}
					if jsonMode {
						p.do("OUTPUT", "json")
					}
					if v, err := p.do(kinds[k]...); err != nil || v.IsErr() {
						t.Fatalf("HARNESS: %s: %v %v", k, v, err)
					}
					lives = append(lives, &liveConn{kind: k, nc: p.nc, local: p.nc.LocalAddr().String()})
				}
				if withPass {
					n.pass = "cnrpw-kill"
					n.mustOK("CONFIG", "SET", "requirepass", n.pass)
					n.configFP()
				}
				lv, err := n.do("CLIENT", "LIST")
				if err != nil || lv.IsErr() {
					t.Fatalf("HARNESS: CLIENT LIST: %v %v", lv, err)
				}
				ids := map[string]string{}
				for _, line := range strings.Split(lv.Str, "\n") {
					var cid, addr string
					for _, f := range strings.Fields(line) {
						if strings.HasPrefix(f, "id=") {
							cid = f[3:]
						}
						if strings.HasPrefix(f, "addr=") {
							addr = f[5:]
						}
					}
					if addr != "" {
						ids[addr] = cid
					}
				}
				failed := false
				for _, l := range lives {
					c.Case()
					form := map[bool]string{false: "id", true: "addr"}[byAddr]
					c.NonTrivial(fmt.Sprintf("%s|json=%v|%s|pass=%v", l.kind, jsonMode, form, withPass))
					cid, listed := ids[l.local]
					if !listed {
						c.Label("impl-mirrored:live-connection-not-in-client-list:" + l.kind)
						l.nc.Close()
						continue
					}
					l.drain(20 * time.Millisecond) // what was queued before the kill
					var kv t38.Value
					if byAddr {
						kv, err = n.do("CLIENT", "KILL", "ADDR", l.local)
					} else {
						kv, err = n.do("CLIENT", "KILL", "ID", cid)
					}
					what := ""
					if err != nil || kv.IsErr() {
						what = fmt.Sprintf("CLIENT KILL %s of a listed live %s connection (id %s, %s) answered %v %v", form, l.kind, cid, l.local, kv, err)
					} else if !l.drain(replyTimeout) {
						what = fmt.Sprintf("CLIENT KILL %s of the live %s connection answered OK but the socket was still open after %s", form, l.kind, replyTimeout)
					} else {
						before := l.buf.Len()
						seq++
						n.do("SET", "fleet", fmt.Sprintf("after%d", seq), "POINT", "33", "-115")
						n.do("PUBLISH", "livechan", "after-kill")
						l.drain(10 * time.Millisecond)
						if l.buf.Len() != before {
							what = fmt.Sprintf("killed live %s connection received %d more bytes after a later write", l.kind, l.buf.Len()-before)
						}
					}
					l.nc.Close()
					if what != "" {
						reportFinding(t, c, id, fmt.Sprintf("json=%v requirepass-set-afterwards=%v: %s", jsonMode, withPass, what),
							map[string]any{"kind": l.kind, "json": jsonMode, "kill": form, "requirepass_set_after_open": withPass})
						failed = true
					} else {
						c.Label("killed:" + l.kind + "/" + form)
					}
				}
				if withPass {
					n.mustOK("CONFIG", "SET", "requirepass", "")
					n.pass = ""
				}
				if failed {
					return
				}
			}
		}
	}
}

package c15

import (
	"encoding/json"
	"fmt"
	"os"
	"path/filepath"
	"regexp"
	"sort"
	"strings"
)

// cmdInfo is one entry of the command table built at run time.
type cmdInfo struct {
	Name   string // lower case; may contain a space ("config get")
	Group  string // group from core/commands.json ("" if undocumented)
	Source string // where the name was found: dispatch, gate, netserve, doc (joined by +)
}

func repoDir() string {
	if d := os.Getenv("VERIF_REPO"); d != "" {
		return d
	}
	return "/repo"
}

var (
	reCase   = regexp.MustCompile(`(?s)\bcase\s+((?:"[^"\n]+"\s*,?\s*)+):`)
	reLit    = regexp.MustCompile(`"([^"\n]+)"`)
	reCmpCmd = regexp.MustCompile(`(?:\bcmd|Command\(\))\s*[!=]=\s*"([a-z][a-z ]*)"`)
)

// funcBody returns the source text of the top-level function whose header
// starts with hdr (up to the first line that is exactly "}").
func funcBody(src, hdr string) (string, error) {
	i := strings.Index(src, hdr)
	if i < 0 {
		return "", fmt.Errorf("function header %q not found", hdr)
	}
	rest := src[i:]
	j := strings.Index(rest, "\n}\n")
	if j < 0 {
		return "", fmt.Errorf("end of %q not found", hdr)
	}
	return rest[:j], nil
}

// loadCommandTable enumerates the commands the server knows: the case labels
// of (*Server).command (dispatch), the case labels and cmd comparisons of
// handleInputCommand (gate: ping, echo, hello, timeout, auth, lock classes),
// the Command() comparisons in netServe (quit), and core/commands.json.
func loadCommandTable() ([]cmdInfo, error) {
	srcB, err := os.ReadFile(filepath.Join(repoDir(), "internal/server/server.go"))
	if err != nil {
		return nil, err
	}
	src := string(srcB)
	found := map[string]map[string]bool{}
	add := func(name, where string) {
		name = strings.ToLower(strings.TrimSpace(name))
		if name == "" {
			return
		}
		if found[name] == nil {
			found[name] = map[string]bool{}
		}
		found[name][where] = true
	}
	disp, err := funcBody(src, "func (s *Server) command(")
	if err != nil {
		return nil, err
	}
	for _, m := range reCase.FindAllStringSubmatch(disp, -1) {
		for _, l := range reLit.FindAllStringSubmatch(m[1], -1) {
			add(l[1], "dispatch")
		}
	}
	gate, err := funcBody(src, "func (s *Server) handleInputCommand(")
	if err != nil {
		return nil, err
	}
	for _, m := range reCase.FindAllStringSubmatch(gate, -1) {
		for _, l := range reLit.FindAllStringSubmatch(m[1], -1) {
			add(l[1], "gate")
		}
	}
	for _, m := range reCmpCmd.FindAllStringSubmatch(gate, -1) {
		add(m[1], "gate")
	}
	if ns, err := funcBody(src, "func (s *Server) netServe("); err == nil {
		for _, m := range reCmpCmd.FindAllStringSubmatch(ns, -1) {
			add(m[1], "netserve")
		}
	}
	groups := map[string]string{}
	docB, err := os.ReadFile(filepath.Join(repoDir(), "core/commands.json"))
	if err != nil {
		return nil, err
	}
	var doc map[string]struct {
		Group string `json:"group"`
	}
	if err := json.Unmarshal(docB, &doc); err != nil {
		return nil, err
	}
	for name, d := range doc {
		add(name, "doc")
		groups[strings.ToLower(name)] = d.Group
	}
	if len(found["set"]) == 0 || len(found["ping"]) == 0 || len(found["quit"]) == 0 || len(found) < 70 {
		return nil, fmt.Errorf("command table extraction looks wrong: %d names", len(found))
	}
	var out []cmdInfo
	for name, w := range found {
		var ws []string
		for k := range w {
			ws = append(ws, k)
		}
		sort.Strings(ws)
		out = append(out, cmdInfo{Name: name, Group: groups[name], Source: strings.Join(ws, "+")})
	}
	sort.Slice(out, func(i, j int) bool { return out[i].Name < out[j].Name })
	return out, nil
}

package c15

import (
	"fmt"
	"strings"
	"testing"
	"time"

	"github.com/tidwall/tile38/verif/harness/ev"
	"github.com/tidwall/tile38/verif/harness/t38"
)

// Follower authentication cells: a leader that requires a password x
// {follower leaderauth unset, wrong, right} x {FOLLOW at run time, follow
// target and leaderauth in the config file at start-up}.
//
// wrong / unset: FOLLOW answers an error (run time) or the follower never
// catches up (start-up); the server keeps its role and gates exactly as
// before, survives, and holds none of the leader's data.
// right: the follower catches up, holds the leader's data, refuses writes.

const leadPass = "cnrpw-lead"

func startAuthLeader() (*node, string, error) {
	a, err := startNode("auth-leader", t38.Opts{})
	if err != nil {
		return nil, "", err
	}
	if err := a.mustOK("SET", "lead", "only", "FIELD", "f", "77310077", "POINT", "5", "5"); err != nil {
		return nil, "", err
	}
	if err := a.mustOK("CONFIG", "SET", "requirepass", leadPass); err != nil {
		return nil, "", err
	}
	a.pass = leadPass
	a.keepRunning = true
	if _, err := a.configFP(); err != nil { // authenticates the admin connection
		return nil, "", err
	}
	d, err := t38.TakeDumpOn(a.admin)
	if err != nil {
		return nil, "", err
	}
	return a, d.Canon(), nil
}

// TestC15_FollowCrashProbe is the regression probe of finding
// crash-follow-leaderauth-rejected (fixed in 828e380): CONFIG SET leaderauth
// <wrong>; FOLLOW <leader with another requirepass> must answer an error and
// the server must stay alive. It runs in a child process when the
// driver built the server binary, because the defect ends the process.
var followCrashSeen bool

func TestC15_FollowCrashProbe(t *testing.T) {
	const id = "crash-follow-leaderauth-rejected"
	c := ev.New("C15", "followcrash", "exploration")
	t.Cleanup(c.Flush)
	c.Rule("deterministic regression probe (finding " + id + "): leader A with requirepass; server B (child process when VERIF_SERVER_BIN is set, else in-process): CONFIG SET leaderauth <wrong>; FOLLOW A -> must answer an error, B must still answer PING and SERVER, must not be following and must keep accepting writes. Also with leaderauth unset.")
	a, _, err := startAuthLeader()
	if err != nil {
		t.Fatalf("HARNESS: %v", err)
	}
	defer a.stopAsync()
	for _, la := range []string{"cnrpw-wrong", ""} {
		c.Case()
		var addr string
		var alive func() bool
		var stderr func() string
		var stop func()
		if t38.ServerBin() != "" {
			p, err := t38.StartProc(t38.Opts{})
			if err != nil {
				t.Fatalf("HARNESS: %v", err)
			}
			addr, alive, stderr, stop = p.Addr, p.Alive, p.Stderr.String, func() { p.Stop() }
			c.Label("server:child-process")
		} else {
			b, err := startNode("crash-probe", t38.Opts{})
			if err != nil {
				t.Fatalf("HARNESS: %v", err)
			}
			addr, alive, stderr, stop = b.srv.Addr, func() bool { return true }, func() string { return "" }, b.stopAsync
			c.Label("server:in-process")
		}
		conn, err := t38.Dial(addr)
		if err != nil {
			stop()
			t.Fatalf("HARNESS: %v", err)
		}
		report := func(what string) {
			what = fmt.Sprintf("leaderauth=%q: %s", la, what)
			if ev.KnownActive(id) {
				c.Known(id, what)
			} else {
				c.Violation(id, what, map[string]any{"leaderauth": la, "cmds": []string{"CONFIG SET leaderauth " + la, "FOLLOW <leader with requirepass>"}})
				t.Errorf("VIOLATION-CANDIDATE key=%s: %s", id, what)
			}
			followCrashSeen = true
		}
		conn.Do("SET", "own", "x", "POINT", "1", "1")
		if la != "" {
			conn.Do("CONFIG", "SET", "leaderauth", la)
		}
		c.NonTrivial("leaderauth=" + la)
		v, err := conn.Do("FOLLOW", "127.0.0.1", itoa(a.srv.Port))
		switch {
		case err != nil:
			time.Sleep(200 * time.Millisecond) // let the child finish writing its trace (reporting only)
			tail := stderr()
			if i := strings.Index(tail, "fatal error"); i >= 0 {
				tail = tail[i:]
				if len(tail) > 300 {
					tail = tail[:300]
				}
			} else if len(tail) > 300 {
				tail = tail[len(tail)-300:]
			}
			report(fmt.Sprintf("FOLLOW <leader that rejects the password>: connection lost (%v), server alive=%v %s", err, alive(), strings.TrimSpace(tail)))
		case !v.IsErr():
			report("FOLLOW was acknowledged although the leader rejects the follower: " + v.String())
		default:
			c.Label("follow-refused:" + outcomeClass(result{HaveReply: true, IsErr: true, ErrMsg: v.Str}))
			c2, err := t38.Dial(addr)
			if err != nil || !alive() {
				report(fmt.Sprintf("after the refused FOLLOW the server is gone (alive=%v, dial: %v)", alive(), err))
				break
			}
			p1, e1 := c2.Do("PING")
			sv, e2 := c2.Do("SERVER")
			w, e3 := c2.Do("SET", "own", "y", "POINT", "1", "1")
			if e1 != nil || e2 != nil || e3 != nil || p1.IsErr() || sv.IsErr() || w.IsErr() || serverMap(sv)["following"] != "" {
				report(fmt.Sprintf("after the refused FOLLOW: PING %v %v, SERVER following=%q %v, SET %v %v", p1, e1, serverMap(sv)["following"], e2, w, e3))
			}
			c2.Close()
		}
		conn.Close()
		stop()
	}
}

func TestC15_LeaderAuth(t *testing.T) {
	c := ev.New("C15", "leaderauth", "exploration")
	t.Cleanup(c.Flush)
	c.Rule("leader with requirepass x follower leaderauth {unset, wrong, right} x {FOLLOW at run time, follow_host/follow_port/leaderauth in the config file at start-up}. wrong/unset at run time: FOLLOW answers an error, the server is not following, its dump is unchanged (none of the leader's data), writes are still accepted. wrong/unset at start-up (directory holds the server's own data): at three observation points SERVER and GET answer 'catching up to leader', SET answers 'not the leader'; after FOLLOW no one the dump is the server's own data only. right: caught_up within the budget (else inconclusive), dump equals the leader's, writes refused. Non-trivial: every cell.")
	if followCrashSeen {
		c.Inconclusive("skipped: the crash probe reproduced crash-follow-leaderauth-rejected; these cells would end the test process")
		return
	}
	a, leaderDump, err := startAuthLeader()
	if err != nil {
		t.Fatalf("HARNESS: %v", err)
	}
	defer a.stopAsync()
	// template directory with the follower's own data
	tpl, err := startNode("auth-template", t38.Opts{})
	if err != nil {
		t.Fatalf("HARNESS: %v", err)
	}
	defer tpl.stopAsync()
	tpl.mustOK("SET", "own", "x", "STRING", "mine")
	od, err := t38.TakeDumpOn(tpl.admin)
	if err != nil {
		t.Fatalf("HARNESS: %v", err)
	}
	ownDump := od.Canon()
	violation := func(key, what string, replay any) {
		c.Violation(key, what, replay)
		t.Errorf("VIOLATION-CANDIDATE key=%s: %s", key, what)
	}
	waitCaughtUp := func(b *node) bool {
		deadline := time.Now().Add(30 * time.Second)
		for time.Now().Before(deadline) {
			v, err := b.do("SERVER")
			if err == nil && !v.IsErr() && serverMap(v)["caught_up"] == "true" {
				if ok, _ := b.waitDump(leaderDump, 5*time.Second); ok {
					return true
				}
			}
			time.Sleep(5 * time.Millisecond)
		}
		return false
	}
	for _, la := range []string{"", "cnrpw-wrong", leadPass} {
		kind := map[string]string{"": "unset", "cnrpw-wrong": "wrong", leadPass: "right"}[la]
		// ---- FOLLOW at run time
		func() {
			c.Case()
			c.NonTrivial("runtime|" + kind)
			b, err := startNode("auth-follower", t38.Opts{})
			if err != nil {
				t.Fatalf("HARNESS: %v", err)
			}
			defer b.stopAsync()
			if kind != "right" {
				b.mustOK("SET", "own", "x", "STRING", "mine")
			}
			if la != "" {
				b.mustOK("CONFIG", "SET", "leaderauth", la)
			}
			before, _ := t38.TakeDumpOn(b.admin)
			v, err := b.do("FOLLOW", "127.0.0.1", itoa(a.srv.Port))
			cell := map[string]any{"when": "runtime", "leaderauth": kind}
			if err != nil {
				violation("gate:leaderauth:runtime-"+kind+":connection-lost", fmt.Sprintf("FOLLOW with leaderauth %s: %v", kind, err), cell)
				return
			}
			c.Label(fmt.Sprintf("runtime/%s/follow-%s", kind, map[bool]string{true: "refused", false: "acknowledged"}[v.IsErr()]))
			if kind == "right" {
				if v.IsErr() {
					violation("gate:leaderauth:runtime-right:refused", "FOLLOW with the right leaderauth answered "+v.Str, cell)
					return
				}
				if !waitCaughtUp(b) {
					c.Inconclusive("runtime/right: follower did not catch up with the leader's dataset within 30s")
					return
				}
				if w, _ := b.do("SET", "own", "z", "POINT", "1", "1"); !w.IsErr() {
					violation("gate:leaderauth:runtime-right:write-accepted", "caught-up authenticated follower accepted SET: "+w.String(), cell)
				}
				return
			}
			if !v.IsErr() {
				violation("gate:leaderauth:runtime-"+kind+":acknowledged", "FOLLOW of a leader that rejects the follower was acknowledged: "+v.String(), cell)
				return
			}
			sv, err := b.do("SERVER")
			after, derr := t38.TakeDumpOn(b.admin)
			w, _ := b.do("SET", "own", "probe", "POINT", "1", "1")
			switch {
			case err != nil || derr != nil:
				violation("gate:leaderauth:runtime-"+kind+":server-lost", fmt.Sprintf("after the refused FOLLOW: %v %v", err, derr), cell)
			case sv.IsErr() || serverMap(sv)["following"] != "":
				violation("gate:leaderauth:runtime-"+kind+":role-changed", "after the refused FOLLOW the server reports "+clip(sv.String(), 200), cell)
			case after.Canon() != before.Canon():
				violation("gate:leaderauth:runtime-"+kind+":data-changed", "after the refused FOLLOW the dataset changed: "+before.Diff(after), cell)
			case w.IsErr():
				violation("gate:leaderauth:runtime-"+kind+":writes-refused", "after the refused FOLLOW a write is refused: "+w.Str, cell)
			}
		}()
		// ---- follow target and leaderauth in the config file
		func() {
			c.Case()
			c.NonTrivial("startup|" + kind)
			dir := t38.NewDir("c15-authfollower")
			if kind != "right" {
				if err := t38.CopyDir(tpl.srv.Dir, dir); err != nil {
					t.Fatalf("HARNESS: %v", err)
				}
			}
			cfg := map[string]any{"follow_host": "127.0.0.1", "follow_port": a.srv.Port}
			if la != "" {
				cfg["leaderauth"] = la
			}
			if err := writeConfig(dir, cfg); err != nil {
				t.Fatalf("HARNESS: %v", err)
			}
			b, err := startNode("auth-follower-cfg", t38.Opts{Dir: dir})
			if err != nil {
				t.Fatalf("HARNESS: %v", err)
			}
			defer b.stopAsync()
			cell := map[string]any{"when": "startup", "leaderauth": kind}
			if kind == "right" {
				if !waitCaughtUp(b) {
					c.Inconclusive("startup/right: follower did not catch up with the leader's dataset within 30s")
					return
				}
				c.Label("startup/right/caught-up")
				if w, _ := b.do("SET", "own", "z", "POINT", "1", "1"); !w.IsErr() {
					violation("gate:leaderauth:startup-right:write-accepted", "caught-up authenticated follower accepted SET: "+w.String(), cell)
				}
				return
			}
			for obs := 0; obs < 3; obs++ {
				sv, e1 := b.do("SERVER")
				g, e2 := b.do("GET", "own", "x")
				w, e3 := b.do("SET", "own", "probe", "POINT", "1", "1")
				if e1 != nil || e2 != nil || e3 != nil {
					violation("gate:leaderauth:startup-"+kind+":server-lost", fmt.Sprintf("follower whose leader rejects it: %v %v %v", e1, e2, e3), cell)
					return
				}
				if !sv.IsErr() || !strings.Contains(sv.Str, "catching up") || !g.IsErr() || !strings.Contains(g.Str, "catching up") {
					violation("gate:leaderauth:startup-"+kind+":read-served", fmt.Sprintf("follower that cannot authenticate to its leader never caught up but answered SERVER %s / GET %s", clip(sv.String(), 80), clip(g.String(), 80)), cell)
					return
				}
				if !w.IsErr() {
					violation("gate:leaderauth:startup-"+kind+":write-accepted", "follower that cannot authenticate to its leader accepted SET: "+w.String(), cell)
					return
				}
				time.Sleep(400 * time.Millisecond) // several reconnect attempts of the follow loop; not a correctness threshold
			}
			c.Label("startup/" + kind + "/never-caught-up")
			if err := b.mustOK("FOLLOW", "no", "one"); err != nil {
				t.Fatalf("HARNESS: %v", err)
			}
			d, err := t38.TakeDumpOn(b.admin)
			if err != nil {
				t.Fatalf("HARNESS: %v", err)
			}
			if d.Canon() != ownDump {
				violation("gate:leaderauth:startup-"+kind+":data-changed", "follower that was never authenticated by its leader does not hold exactly its own data: "+od.Diff(d), cell)
			}
		}()
	}
}

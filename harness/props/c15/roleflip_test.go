package c15

import (
	"encoding/json"
	"fmt"
	"strings"
	"sync"
	"sync/atomic"
	"testing"
	"time"

	"github.com/tidwall/tile38/verif/harness/ev"
	"github.com/tidwall/tile38/verif/harness/t38"
	"pgregory.net/rapid"
)

// Role flips under load: writers of several kinds keep writing while an admin
// connection turns the server read-only (or into a follower) and back. The
// oracle is interval based, there is no wall-clock threshold:
//
//   - READONLY yes and SERVER are written in one segment; SERVER is therefore
//     executed after the role change and its aof_size / num_objects (A) are a
//     state the read-only server was in. Once every writer has been refused
//     a command that it SENT after the admin had READ the acknowledgement
//     (so all its earlier commands have completed), SERVER is read again (B).
//     A read-only server accepts no write, hence A == B.
//   - a write that a writer sent after the admin had read the acknowledgement
//     of READONLY yes / FOLLOW host port (and before the admin undid it) must
//     not be accepted.
//
// The epoch counter makes "sent after the acknowledgement was read" exact:
// the admin makes it odd after reading the acknowledgement and even again
// BEFORE it sends READONLY no / FOLLOW no one; a writer reads it right before
// it sends and again after it got the reply: odd and unchanged means the
// whole command lived inside the refused interval.

var flipKinds = []string{"set", "eval", "evalna", "evalna-json", "evalnasha", "pipelined-set", "pipelined-evalna", "timeout-set", "timeout-evalna"}

const flipScript = "return tile38.call('set', KEYS[1], ARGV[1], 'POINT', 33, -115)"

type flipWriter struct {
	kind      string
	idx       int
	canWrite  bool
	accepted  atomic.Int64 // epoch in which the last accepted command was sent
	refused   atomic.Int64 // epoch in which the last role-refused command was sent
	nAccepted atomic.Int64
	lateOK    atomic.Int64 // accepted commands that were sent in an odd epoch
	lateWhat  atomic.Value
	err       atomic.Value
}

type flipPlan struct {
	Kinds  []string `json:"writer_kinds"`
	Flips  int      `json:"flips"`
	Follow bool     `json:"follow"`
	Churn  []int    `json:"churn"`
	Flip   int      `json:"failed_at_flip,omitempty"`
}

func roleRefusal(msg string) bool {
	return strings.Contains(msg, "read only") || strings.Contains(msg, "not the leader")
}

// run is the writer loop. It ends when stop is set (checked between commands).
func (w *flipWriter) run(addr string, epoch *atomic.Int64, stop *atomic.Bool, wg *sync.WaitGroup) {
	defer wg.Done()
	p, err := dialPre(addr)
	if err != nil {
		w.err.Store(err.Error())
		return
	}
	defer p.nc.Close()
	if w.kind == "evalna-json" {
		if _, err := p.do("OUTPUT", "json"); err != nil {
			w.err.Store(err.Error())
			return
		}
	}
	sha := sha1hex(flipScript)
	if w.kind == "evalnasha" {
		if v, err := p.do("SCRIPT", "LOAD", flipScript); err != nil || v.IsErr() {
			w.err.Store(fmt.Sprintf("SCRIPT LOAD: %v %v", v, err))
			return
		}
	}
	seq := 0
	build := func() []string {
		seq++
		id := fmt.Sprintf("w%dn%d", w.idx, seq)
		switch w.kind {
		case "set", "pipelined-set":
			return []string{"SET", "flip", id, "POINT", "33", "-115"}
		case "eval":
			return []string{"EVAL", flipScript, "1", "flip", id}
		case "evalnasha":
			return []string{"EVALNASHA", sha, "1", "flip", id}
		case "timeout-set":
			return []string{"TIMEOUT", "100", "SET", "flip", id, "POINT", "33", "-115"}
		case "timeout-evalna":
			return []string{"TIMEOUT", "100", "EVALNA", flipScript, "1", "flip", id}
		default: // evalna, evalna-json, pipelined-evalna
			return []string{"EVALNA", flipScript, "1", "flip", id}
		}
	}
	batch := 1
	if strings.HasPrefix(w.kind, "pipelined") {
		batch = 4
	}
	for !stop.Load() {
		var buf []byte
		var last []string
		for i := 0; i < batch; i++ {
			last = build()
			buf = append(buf, t38.EncodeCmd(last...)...)
		}
		e := epoch.Load()
		p.nc.SetWriteDeadline(time.Now().Add(replyTimeout))
		if _, err := p.nc.Write(buf); err != nil {
			w.err.Store(err.Error())
			return
		}
		for i := 0; i < batch; i++ {
			p.nc.SetReadDeadline(time.Now().Add(replyTimeout))
			v, err := t38.ReadValue(p.br)
			if err != nil {
				w.err.Store("reading reply: " + err.Error())
				return
			}
			isErr, msg := replyErr(v)
			switch {
			case !isErr:
				w.nAccepted.Add(1)
				w.accepted.Store(e)
				// sent after the epoch became odd (acknowledgement read) and answered
				// while it still was (the role had not been given back yet)
				if e%2 == 1 && epoch.Load() == e {
					w.lateOK.Add(1)
					w.lateWhat.Store(fmt.Sprintf("%s (writer kind %s) -> %s", t38.CmdString(last), w.kind, clip(v.String(), 60)))
				}
			case roleRefusal(msg):
				w.refused.Store(e)
			default:
				// e.g. "timeout not supported for 'set'": neither accepted nor a role refusal
			}
		}
	}
}

type flipObs struct {
	AOF     string
	Objects string
}

func parseFlipObs(v t38.Value) flipObs {
	m := serverMap(v)
	return flipObs{AOF: m["aof_size"], Objects: m["num_objects"]}
}

// waitAll polls cond until it holds; false = budget exhausted (inconclusive).
func waitAll(cond func() bool, writers []*flipWriter) (bool, string) {
	deadline := time.Now().Add(60 * time.Second)
	for i := 0; ; i++ {
		if cond() {
			return true, ""
		}
		for _, w := range writers {
			if e := w.err.Load(); e != nil {
				return false, fmt.Sprintf("writer %d (%s): %v", w.idx, w.kind, e)
			}
		}
		if time.Now().After(deadline) {
			return false, "writers did not make progress within 60s"
		}
		if i < 200 {
			time.Sleep(20 * time.Microsecond)
		} else {
			time.Sleep(time.Millisecond)
		}
	}
}

// runFlips executes one plan on fresh servers. It returns a violation
// (key, what) or "" and counts what happened in the collector.
func runFlips(c *ev.Collector, plan *flipPlan) (key, what string) {
	srv, err := startNode("flip", t38.Opts{})
	if err != nil {
		c.Inconclusive("cannot start server: %v", err)
		return
	}
	defer srv.stopAsync()
	var leader *node
	if plan.Follow {
		if leader, err = startNode("flip-leader", t38.Opts{}); err != nil {
			c.Inconclusive("cannot start leader: %v", err)
			return
		}
		leader.keepRunning = true
		defer leader.stopAsync()
		leader.mustOK("SET", "flip", "seed", "POINT", "1", "1")
	}
	admin, err := dialPre(srv.srv.Addr)
	if err != nil {
		c.Inconclusive("admin connection: %v", err)
		return
	}
	defer admin.nc.Close()

	var epoch atomic.Int64
	var stop atomic.Bool
	var wg sync.WaitGroup
	writers := make([]*flipWriter, len(plan.Kinds))
	for i, k := range plan.Kinds {
		writers[i] = &flipWriter{kind: k, idx: i, canWrite: !strings.HasPrefix(k, "timeout")} // TIMEOUT-wrapped EVALNA does write, but ~25 ms per command: not waited for
		writers[i].accepted.Store(-1)
		writers[i].refused.Store(-1)
	}
	defer func() {
		stop.Store(true)
		// writers blocked on nothing: every command is answered; just wait
		wg.Wait()
	}()
	for _, w := range writers {
		wg.Add(1)
		go w.run(srv.srv.Addr, &epoch, &stop, &wg)
	}
	total := func() (n int64) {
		for _, w := range writers {
			n += w.nAccepted.Load()
		}
		return
	}
	on, off := []string{"READONLY", "yes"}, []string{"READONLY", "no"}
	if plan.Follow {
		on, off = []string{"FOLLOW", "127.0.0.1", itoa(leader.srv.Port)}, []string{"FOLLOW", "no", "one"}
	}
	for flip := 0; flip < plan.Flips; flip++ {
		e := epoch.Load() // even: writable phase
		c.Case()
		// every writer that can write has had a write accepted that it sent in this phase
		ok, why := waitAll(func() bool {
			for _, w := range writers {
				if w.canWrite && w.accepted.Load() != e {
					return false
				}
			}
			return true
		}, writers)
		if !ok {
			c.Inconclusive("flip %d, writable phase: %s", flip, why)
			return
		}
		before := total()
		churn := int64(plan.Churn[flip%len(plan.Churn)])
		if ok, why := waitAll(func() bool { return total() >= before+churn }, writers); !ok {
			c.Inconclusive("flip %d, churn: %s", flip, why)
			return
		}
		// role change and observation A in one segment
		buf := append(t38.EncodeCmd(on...), t38.EncodeCmd("SERVER")...)
		admin.nc.SetWriteDeadline(time.Now().Add(replyTimeout))
		if _, err := admin.nc.Write(buf); err != nil {
			c.Inconclusive("admin write: %v", err)
			return
		}
		admin.nc.SetReadDeadline(time.Now().Add(replyTimeout))
		ack, err := t38.ReadValue(admin.br)
		if err != nil || ack.IsErr() {
			c.Inconclusive("flip %d: %s answered %v %v", flip, t38.CmdString(on), ack, err)
			return
		}
		av, err := t38.ReadValue(admin.br)
		if err != nil {
			c.Inconclusive("admin read: %v", err)
			return
		}
		epoch.Store(e + 1) // the acknowledgement has been read
		a := parseFlipObs(av)
		// every writer has been refused a command sent after the acknowledgement was read
		ok, why = waitAll(func() bool {
			for _, w := range writers {
				// TIMEOUT-wrapped writers take ~25 ms per command and are not waited
				// for: a write of theirs landing between A and B is still seen, one
				// landing after B is simply not observed (never a false alarm)
				if w.canWrite && w.refused.Load() != e+1 {
					return false
				}
			}
			return true
		}, writers)
		if !ok {
			c.Inconclusive("flip %d, refused phase: %s", flip, why)
			return
		}
		bv, err := admin.do("SERVER")
		if err != nil {
			c.Inconclusive("admin read: %v", err)
			return
		}
		b := parseFlipObs(bv)
		c.Label("flip:" + strings.ToLower(on[0]))
		c.NonTrivial(fmt.Sprintf("%s|%d|%s", on[0], total()-before, a.AOF))
		for _, w := range writers {
			if w.lateOK.Load() > 0 {
				plan.Flip = flip
				lw, _ := w.lateWhat.Load().(string)
				return "gate:role-flip:write-accepted-after-ack:" + strings.ToLower(on[0]),
					fmt.Sprintf("flip %d: a write sent after the acknowledgement of %s had been read was accepted: %s", flip, t38.CmdString(on), lw)
			}
		}
		if !plan.Follow {
			// (a new follower legitimately replaces its dataset: no state oracle there)
			if !av.IsErr() && !bv.IsErr() && a != b {
				plan.Flip = flip
				return "gate:role-flip:changed-after-readonly-ack",
					fmt.Sprintf("flip %d (%d writers: %s): right after the acknowledged READONLY yes the server had aof_size=%s num_objects=%s; once every writer had been refused it had aof_size=%s num_objects=%s: writes in flight got through after the server had become read-only",
						flip, len(writers), strings.Join(plan.Kinds, ","), a.AOF, a.Objects, b.AOF, b.Objects)
			}
			if av.IsErr() || bv.IsErr() {
				c.Inconclusive("SERVER answered an error: %v %v", av, bv)
				return
			}
		}
		epoch.Store(e + 2) // BEFORE the role is given back: later acceptances are legitimate
		if v, err := admin.do(off...); err != nil || v.IsErr() {
			c.Inconclusive("flip %d: %s answered %v %v", flip, t38.CmdString(off), v, err)
			return
		}
	}
	for _, w := range writers {
		c.LabelN("accepted-writes:"+w.kind, int(w.nAccepted.Load()))
	}
	return "", ""
}

func drawFlipPlan(rt *rapid.T, follow bool) *flipPlan {
	n := ev.Pick(12, 16)
	p := &flipPlan{Follow: follow}
	// at least a third of the writers write through EVALNA (the non-atomic
	// path takes the lock per inner call), the rest is drawn
	for i := 0; i < n; i++ {
		if i < n/3 {
			p.Kinds = append(p.Kinds, "evalna")
		} else {
			p.Kinds = append(p.Kinds, rapid.SampledFrom(flipKinds).Draw(rt, "writerkind"))
		}
	}
	p.Churn = rapid.SliceOfN(rapid.IntRange(0, 40), 8, 8).Draw(rt, "churn")
	if follow {
		p.Flips = ev.Pick(4, 6)
	} else {
		p.Flips = ev.Pick(25, 60)
	}
	return p
}

func TestC15_RoleFlip(t *testing.T) {
	c := ev.New("C15", "roleflip", "exploration")
	t.Cleanup(c.Flush)
	c.Rule("12 (thorough 16) concurrent writer connections of drawn kinds (direct SET, EVAL, EVALNA, EVALNA in JSON mode, EVALNASHA, 4-deep pipelined SET / EVALNA, TIMEOUT-wrapped SET / EVALNA; at least a third EVALNA) write unique ids while an admin connection flips READONLY yes/no 25 (60) times per case (2 cases; every flip costs two fsyncs of the config file since fix 6929699, ~0.2 s), and FOLLOW <leader>/FOLLOW no one 4 (6) times per case on a second server. Each flip: wait until every writer had a write accepted in the writable phase plus a drawn amount of churn; send READONLY yes + SERVER in one segment (A); after the acknowledgement is read the epoch becomes odd; wait until every writer was refused a command it sent in the odd epoch; SERVER again (B). Oracle: aof_size and num_objects of A and B are equal (READONLY only), and no command sent in an odd epoch is accepted. No wall-clock thresholds: waits that run out are inconclusive. Non-trivial: every flip (writers are mid-command by construction); distinct by (command, writes accepted in the phase, aof_size).")
	ev.Rapid("roleflip", ev.Pick(2, 2))
	rapid.Check(t, func(rt *rapid.T) {
		for _, follow := range []bool{false, true} {
			plan := drawFlipPlan(rt, follow)
			key, what := runFlips(c, plan)
			if c.WantSample() {
				c.Sample(map[string]any{"writer_kinds": plan.Kinds, "flips": plan.Flips, "follow": plan.Follow})
			}
			if key != "" {
				c.Fail(rt, key, what, plan)
			}
		}
	})
}

func replayFlips(t *testing.T, c *ev.Collector, data json.RawMessage) {
	var plan flipPlan
	if err := json.Unmarshal(data, &plan); err != nil || len(plan.Kinds) == 0 {
		t.Fatalf("bad replay data: %v", err)
	}
	if len(plan.Churn) == 0 {
		plan.Churn = []int{10}
	}
	// schedule dependent: repeat the plan a few times
	for i := 0; i < 5; i++ {
		if key, what := runFlips(c, &plan); key != "" {
			c.Violation(key, what, plan)
			t.Errorf("VIOLATION-CANDIDATE key=%s: %s", key, what)
			return
		}
	}
}

package c15

import (
	"bufio"
	"bytes"
	"encoding/json"
	"errors"
	"io"
	"net"
	"net/url"
	"strings"
	"time"

	"github.com/tidwall/tile38/verif/harness/t38"
)

// variant is the way a base command is presented to the server.
type variant string

const (
	vPlain      variant = "plain"
	vJSON       variant = "json" // RESP connection switched to OUTPUT json first
	vTimeout    variant = "timeout"
	vEval       variant = "eval"
	vEvalRO     variant = "evalro"
	vEvalNA     variant = "evalna"
	vEvalSha    variant = "evalsha"
	vEvalROSha  variant = "evalrosha"
	vEvalNASha  variant = "evalnasha"
	vHTTP       variant = "http"
	vHTTPNoAuth variant = "http-noauth" // HTTP without an Authorization header
)

var allVariants = []variant{vPlain, vJSON, vTimeout, vEval, vEvalRO, vEvalNA, vEvalSha, vEvalROSha, vEvalNASha, vHTTP, vHTTPNoAuth}

func (v variant) direct() bool {
	return v == vPlain || v == vJSON || v == vHTTP || v == vHTTPNoAuth
}

func (v variant) http() bool { return v == vHTTP || v == vHTTPNoAuth }

func (v variant) script() (evalcmd string, sha bool, ok bool) {
	switch v {
	case vEval:
		return "EVAL", false, true
	case vEvalRO:
		return "EVALRO", false, true
	case vEvalNA:
		return "EVALNA", false, true
	case vEvalSha:
		return "EVALSHA", true, true
	case vEvalROSha:
		return "EVALROSHA", true, true
	case vEvalNASha:
		return "EVALNASHA", true, true
	}
	return "", false, false
}

// wire turns (variant, base args) into the command actually sent. preload is
// a script that has to be SCRIPT LOADed on the target first ("" if none).
func wire(v variant, args []string) (out []string, preload string) {
	// a base command of the form NAME@load script nkeys ... sends the sha
	if len(args) >= 2 && strings.HasSuffix(args[0], "@load") {
		preload = args[1]
		base := append([]string{strings.TrimSuffix(args[0], "@load"), sha1hex(args[1])}, args[2:]...)
		args = base
	}
	if evalcmd, sha, ok := v.script(); ok {
		script := luaCall(args)
		if preload != "" {
			// nested script inside a script is refused anyway; keep the text
			preload = ""
		}
		if sha {
			return []string{evalcmd, sha1hex(script), "0"}, script
		}
		return []string{evalcmd, script, "0"}, ""
	}
	if v == vTimeout {
		return append([]string{"TIMEOUT", "100"}, args...), preload
	}
	return args, preload
}

// httpRepresentable: the HTTP transport splits the path on spaces and takes a
// token starting with '{' as the rest of the line.
func httpRepresentable(args []string) bool {
	if len(args) == 0 {
		return false
	}
	for i, a := range args {
		if a == "" || strings.ContainsAny(a, " \r\n\t") {
			return false
		}
		if a[0] == '{' && i != len(args)-1 {
			return false
		}
		if a[0] == '"' {
			return false
		}
	}
	if len(args) == 1 {
		l := strings.ToLower(args[0])
		if strings.HasSuffix(l, ".mvt") || strings.HasSuffix(l, ".pbf") || strings.HasPrefix(l, "viewer") {
			return false
		}
	}
	return true
}

func httpRequest(args []string, authHeader string, withAuth bool) []byte {
	parts := make([]string, len(args))
	for i, a := range args {
		parts[i] = strings.ReplaceAll(url.QueryEscape(a), "+", "%20")
	}
	var b bytes.Buffer
	b.WriteString("GET /" + strings.Join(parts, "%20") + " HTTP/1.1\r\nHost: c15\r\n")
	if withAuth {
		b.WriteString("Authorization: " + authHeader + "\r\n")
	}
	b.WriteString("\r\n")
	return b.Bytes()
}

// result is what one execution of a cell produced on the wire.
type result struct {
	DialErr   string
	PrepErr   string // AUTH / OUTPUT json preparation failed
	HaveReply bool
	First     string // rendered first reply (RESP value or HTTP body)
	IsErr     bool
	ErrMsg    string
	EOF       bool // connection closed without any reply to the command
	Hang      bool
	Leak      string // secret token found in a reply region
	Probed    bool
	ProbeErr  bool   // the probe read after the command was refused
	ProbeText string // rendered probe reply
	Raw       string // everything received for the command (bounded), for samples
}

type teeConn struct {
	net.Conn
	buf *bytes.Buffer
}

func (t *teeConn) Read(p []byte) (int, error) {
	n, err := t.Conn.Read(p)
	if n > 0 {
		t.buf.Write(p[:n])
	}
	return n, err
}

func isTimeout(err error) bool {
	var ne net.Error
	return errors.As(err, &ne) && ne.Timeout()
}

// replyErr decides whether a RESP value is an error reply: a RESP error, or
// (JSON output mode) a bulk string holding {"ok":false,"err":...}.
func replyErr(v t38.Value) (bool, string) {
	if v.Kind == '-' {
		return true, v.Str
	}
	if v.Kind == '$' && !v.Null && strings.HasPrefix(v.Str, `{"ok":false`) {
		var m struct {
			OK  bool   `json:"ok"`
			Err string `json:"err"`
		}
		if json.Unmarshal([]byte(v.Str), &m) == nil && !m.OK {
			return true, m.Err
		}
	}
	return false, ""
}

func findSecret(b []byte) string {
	for _, tok := range secretTokens {
		if bytes.Contains(b, []byte(tok)) {
			return tok
		}
	}
	return ""
}

func clip(s string, n int) string {
	if len(s) > n {
		return s[:n] + "..."
	}
	return s
}

type execOpts struct {
	addr     string
	fromIP   string
	preAuth  string // AUTH sent before the command ("" = none)
	v        variant
	wire     []string
	httpAuth string
	probe    bool // after the command, check whether the connection may read data
	pre      *preConn // run on this pre-existing connection instead of dialling
}

// preConn is a connection that was opened, and used, before the cell runs.
type preConn struct {
	nc     net.Conn
	tee    *teeConn
	br     *bufio.Reader
	primed string // what it ran when it was opened
}

func dialPre(addr string) (*preConn, error) {
	d := net.Dialer{Timeout: 10 * time.Second}
	nc, err := d.Dial("tcp", addr)
	if err != nil {
		return nil, err
	}
	if tc, ok := nc.(*net.TCPConn); ok {
		tc.SetNoDelay(true)
	}
	tee := &teeConn{Conn: nc, buf: &bytes.Buffer{}}
	return &preConn{nc: nc, tee: tee, br: bufio.NewReaderSize(tee, 1<<16)}, nil
}

func (p *preConn) do(args ...string) (t38.Value, error) {
	p.nc.SetWriteDeadline(time.Now().Add(replyTimeout))
	if _, err := p.nc.Write(t38.EncodeCmd(args...)); err != nil {
		return t38.Value{}, err
	}
	p.nc.SetReadDeadline(time.Now().Add(replyTimeout))
	return t38.ReadValue(p.br)
}

var replyTimeout = 30 * time.Second

// execCell runs one command on a fresh connection and reads everything the
// server sends until it closes the connection (QUIT + half close end every
// connection kind, live ones included).
func execCell(o execOpts) (r result) {
	t38.JournalNote("c15 " + string(o.v) + " " + o.addr + " " + t38.CmdString(o.wire))
	var nc net.Conn
	var tee *teeConn
	var br *bufio.Reader
	if o.pre != nil {
		// a connection that already exists (and already talked to the server)
		nc, tee, br = o.pre.nc, o.pre.tee, o.pre.br
	} else {
		var d net.Dialer
		d.Timeout = 10 * time.Second
		if o.fromIP != "" {
			d.LocalAddr = &net.TCPAddr{IP: net.ParseIP(o.fromIP)}
		}
		c, err := d.Dial("tcp", o.addr)
		if err != nil {
			r.DialErr = err.Error()
			return
		}
		nc = c
		if tc, ok := nc.(*net.TCPConn); ok {
			tc.SetNoDelay(true)
		}
		tee = &teeConn{Conn: nc, buf: &bytes.Buffer{}}
		br = bufio.NewReaderSize(tee, 1<<16)
	}
	defer nc.Close()
	consumed := func() int { return tee.buf.Len() - br.Buffered() }
	closeWrite := func() {
		if tc, ok := nc.(*net.TCPConn); ok {
			tc.CloseWrite()
		}
	}
	drain := func() {
		nc.SetReadDeadline(time.Now().Add(replyTimeout))
		_, err := io.Copy(io.Discard, br)
		if err != nil && isTimeout(err) {
			r.Hang = true
		}
	}

	if o.v.http() {
		nc.SetWriteDeadline(time.Now().Add(replyTimeout))
		nc.Write(httpRequest(o.wire, o.httpAuth, o.v == vHTTP))
		closeWrite()
		drain()
		raw := tee.buf.Bytes()
		r.Raw = clip(string(raw), 300)
		r.Leak = findSecret(raw)
		if len(raw) == 0 {
			r.EOF = true
			return
		}
		r.HaveReply = true
		body := raw
		if i := bytes.Index(raw, []byte("\r\n\r\n")); i >= 0 {
			body = raw[i+4:]
		}
		r.First = clip(strings.TrimSpace(string(body)), 200)
		var m struct {
			OK  *bool  `json:"ok"`
			Err string `json:"err"`
		}
		dec := json.NewDecoder(bytes.NewReader(body))
		if dec.Decode(&m) == nil && m.OK != nil {
			if !*m.OK {
				r.IsErr, r.ErrMsg = true, m.Err
			}
		} else if !bytes.HasPrefix(raw, []byte("HTTP/1.1 200")) && !bytes.HasPrefix(raw, []byte("HTTP/1.1 101")) {
			// a non-JSON body with an error status counts as a refusal
			r.IsErr, r.ErrMsg = true, clip(string(raw), 80)
		}
		return
	}

	do := func(args ...string) (t38.Value, error) {
		nc.SetWriteDeadline(time.Now().Add(replyTimeout))
		if _, err := nc.Write(t38.EncodeCmd(args...)); err != nil {
			return t38.Value{}, err
		}
		nc.SetReadDeadline(time.Now().Add(replyTimeout))
		return t38.ReadValue(br)
	}
	if o.preAuth != "" {
		v, err := do("AUTH", o.preAuth)
		if err != nil || v.IsErr() {
			r.PrepErr = "AUTH: " + v.String()
			if err != nil {
				r.PrepErr += " " + err.Error()
			}
			return
		}
	}
	if o.v == vJSON {
		v, err := do("OUTPUT", "json")
		if err != nil || v.IsErr() {
			r.PrepErr = "OUTPUT json: " + v.String()
			return
		}
	}
	mark0 := consumed()
	first, err := do(o.wire...)
	mark1 := consumed()
	switch {
	case err == nil:
		r.HaveReply = true
		r.First = clip(first.String(), 200)
		r.IsErr, r.ErrMsg = replyErr(first)
	case isTimeout(err):
		r.Hang = true
		return
	default:
		// EOF or reset: whatever arrived is still inspected below
		r.EOF = true
		if tee.buf.Len() > mark0 {
			r.First = clip(string(tee.buf.Bytes()[mark0:]), 200)
		}
	}
	mark2 := mark1
	if o.probe && r.HaveReply {
		pv, perr := do("GET", "cnrK1", "cnrSECRETid")
		mark2 = consumed()
		r.Probed = true
		if perr != nil {
			r.ProbeErr = true // closed: nothing was served
			r.ProbeText = "closed: " + perr.Error()
		} else {
			r.ProbeErr, _ = replyErr(pv)
			r.ProbeText = clip(pv.String(), 120)
		}
	}
	if !r.EOF {
		nc.SetWriteDeadline(time.Now().Add(replyTimeout))
		nc.Write(t38.EncodeCmd("QUIT"))
		closeWrite()
		drain()
	}
	raw := tee.buf.Bytes()
	if mark2 > len(raw) {
		mark2 = len(raw)
	}
	if mark1 > len(raw) {
		mark1 = len(raw)
	}
	region := append(append([]byte{}, raw[mark0:mark1]...), raw[mark2:]...)
	r.Leak = findSecret(region)
	r.Raw = clip(string(region), 300)
	return
}

// outcomeClass names the outcome of a cell for the evidence matrix.
func outcomeClass(r result) string {
	switch {
	case r.DialErr != "":
		return "dial-error"
	case r.PrepErr != "":
		return "prep-error"
	case r.Hang:
		return "hang"
	case r.EOF && !r.HaveReply:
		return "closed-no-reply"
	case !r.IsErr:
		return "ok"
	}
	m := strings.ToLower(r.ErrMsg)
	switch {
	case strings.Contains(m, "not the leader"):
		return "err:not-the-leader"
	case strings.Contains(m, "catching up to leader"):
		return "err:catching-up"
	case strings.Contains(m, "read only"):
		return "err:read-only"
	case strings.Contains(m, "authentication required"):
		return "err:auth-required"
	case strings.Contains(m, "invalid password"):
		return "err:invalid-password"
	case strings.Contains(m, "unknown command"):
		return "err:unknown-command"
	case strings.Contains(m, "not supported"):
		return "err:not-supported"
	case strings.Contains(m, "wrong number of arguments") || strings.Contains(m, "invalid number of arguments"):
		return "err:arity"
	case strings.Contains(m, "denied"):
		return "err:denied"
	}
	return "err:other"
}

// nonLoopbackExchange connects from source address 127.0.0.2, writes payload
// with a single Write and reads until the server closes the connection.
func nonLoopbackExchange(addr string, payload []byte) (raw []byte, readErr error, dialErr error) {
	d := net.Dialer{Timeout: 10 * time.Second, LocalAddr: &net.TCPAddr{IP: net.ParseIP("127.0.0.2")}}
	nc, err := d.Dial("tcp", addr)
	if err != nil {
		return nil, nil, err
	}
	defer nc.Close()
	if tc, ok := nc.(*net.TCPConn); ok {
		tc.SetNoDelay(true)
	}
	nc.SetWriteDeadline(time.Now().Add(replyTimeout))
	nc.Write(payload) // may fail with EPIPE/ECONNRESET when the server already closed: fine
	nc.SetReadDeadline(time.Now().Add(replyTimeout))
	var buf bytes.Buffer
	_, err = io.Copy(&buf, nc)
	return buf.Bytes(), err, nil
}

package c15

import (
	"encoding/json"
	"fmt"
	"os"
	"path/filepath"
	"strconv"
	"strings"
	"sync"
	"sync/atomic"
	"syscall"
	"time"

	"github.com/tidwall/tile38/internal/verifhook"
	"github.com/tidwall/tile38/verif/harness/t38"
)

// node is one server instance plus an administrative (authenticated,
// loopback) connection used only to observe and restore it.
type node struct {
	name     string
	srv      *t38.Srv
	admin    *t38.Conn
	pass     string // requirepass this node is meant to run with
	readonly bool   // READONLY yes
	follows  *node  // leader it follows (caught-up follower)
	ncu      bool   // follower that never caught up (reads are refused)
	protect  bool   // started with Opts.Protected = "yes"
	passVia  string // "file" or "configset"
	wantFP   string
	base     snap
	shrinks  atomic.Int64 // AOFSHRINK runs that ended
	stopped  bool
	// keepRunning: never call Stop on this in-process server (see stopAsync)
	keepRunning bool
}

// snap is the observable state of a node.
type snap struct {
	Dump string // canonical dataset dump (never-caught-up follower: STATS of all keys)
	AOF  int64  // aof_size (never-caught-up follower: size of appendonly.aof)
	FP   string // mode fingerprint: following / read_only / requirepass / protected-mode ...
}

var (
	stopWG sync.WaitGroup
)

func (n *node) stopAsync() {
	if n == nil || n.stopped {
		return
	}
	n.stopped = true
	if n.admin != nil {
		n.admin.Close()
	}
	verifhook.Unregister(n.srv.Dir)
	if n.keepRunning {
		// A server that has (or just had) replication / AOF stream connections is
		// not shut down while the test process lives: its shutdown goroutine walks
		// the map of those connections without the server lock (server.go, Serve:
		// "for conn, f := range s.aofconnM"), and a follower disconnecting at that
		// moment ends the process with "concurrent map iteration and map write"
		// (reported as suspected defect crash-shutdown-aofconn-map-race). It ends
		// with the process.
		return
	}
	stopWG.Add(1)
	go func() {
		defer stopWG.Done()
		n.srv.Stop()
		os.RemoveAll(n.srv.Dir)
	}()
}

func startNode(name string, o t38.Opts) (*node, error) {
	o.HTTP = true
	if o.Dir == "" {
		o.Dir = t38.NewDir("c15-" + name)
	}
	n := &node{name: name}
	verifhook.Register(o.Dir, &verifhook.Handler{Stage: func(stage string) {
		if stage == "ended" {
			n.shrinks.Add(1)
		}
	}})
	srv, err := t38.Start(o)
	if err != nil {
		verifhook.Unregister(o.Dir)
		return nil, err
	}
	n.srv = srv
	n.protect = o.Protected == "yes"
	c, err := srv.Dial()
	if err != nil {
		srv.StopAsync()
		return nil, err
	}
	n.admin = c
	return n, nil
}

// do runs an administrative command, authenticating when the server asks.
func (n *node) do(args ...string) (t38.Value, error) {
	v, err := n.admin.Do(args...)
	if err != nil {
		return v, fmt.Errorf("%s admin %v: %w", n.name, args, err)
	}
	if v.IsErr() && strings.Contains(v.Str, "authentication required") {
		for _, pw := range []string{n.pass, altPass} {
			if pw == "" {
				continue
			}
			if a, err := n.admin.Do("AUTH", pw); err == nil && !a.IsErr() {
				return n.admin.Do(args...)
			}
		}
	}
	return v, nil
}

func (n *node) mustOK(args ...string) error {
	v, err := n.do(args...)
	if err != nil {
		return err
	}
	if v.IsErr() {
		return fmt.Errorf("%s admin %v: %s", n.name, args, v.Str)
	}
	return nil
}

func serverMap(v t38.Value) map[string]string {
	m := map[string]string{}
	for i := 0; i+1 < len(v.Arr); i += 2 {
		m[v.Arr[i].Text()] = v.Arr[i+1].Text()
	}
	return m
}

var fpProps = []string{"requirepass", "protected-mode", "maxmemory", "leaderauth", "keepalive"}

// configFP reads the gate-relevant settings (pipelined); it re-authenticates
// the admin connection first when the server asks for a password.
func (n *node) configFP() (string, error) {
	if _, err := n.do("CONFIG", "GET", fpProps[0]); err != nil {
		return "", err
	}
	var buf []byte
	for _, p := range fpProps {
		buf = append(buf, t38.EncodeCmd("CONFIG", "GET", p)...)
	}
	if err := n.admin.SendRaw(buf); err != nil {
		return "", err
	}
	var parts []string
	for _, p := range fpProps {
		v, err := n.admin.Recv()
		if err != nil {
			return "", fmt.Errorf("%s admin CONFIG GET: %w", n.name, err)
		}
		parts = append(parts, p+"="+v.String())
	}
	return strings.Join(parts, " "), nil
}

func (n *node) snapshot() (snap, error) {
	var s snap
	fp, err := n.configFP() // first: re-authenticates the admin connection if needed
	if err != nil {
		return s, err
	}
	if n.ncu {
		// reads are refused here; observe what is not gated
		st, err := os.Stat(n.srv.AOFPath())
		if err != nil {
			return s, err
		}
		s.AOF = st.Size()
		keys := append(append([]string{"STATS"}, ns.Keys...), "cnrSECRETkey", "cnrK8", "cnrK9")
		v, err := n.do(keys...)
		if err != nil {
			return s, err
		}
		s.Dump = v.String()
		cfg, _ := os.ReadFile(filepath.Join(n.srv.Dir, "config"))
		var m map[string]any
		json.Unmarshal(cfg, &m)
		s.FP = fmt.Sprintf("follow=%v:%v ro=%v %s", m["follow_host"], m["follow_port"], m["read_only"], fp)
		return s, nil
	}
	d, err := t38.TakeDumpOn(n.admin)
	if err != nil {
		return s, fmt.Errorf("%s dump: %w", n.name, err)
	}
	s.Dump = d.Canon()
	v, err := n.do("SERVER")
	if err != nil {
		return s, err
	}
	if v.IsErr() {
		return s, fmt.Errorf("%s SERVER: %s", n.name, v.Str)
	}
	m := serverMap(v)
	s.AOF, _ = strconv.ParseInt(m["aof_size"], 10, 64)
	s.FP = fmt.Sprintf("following=%s ro=%s %s", m["following"], m["read_only"], fp)
	return s, nil
}

// restoreConfig puts the settings a cell may legitimately have changed back.
func (n *node) restoreConfig() error {
	if _, err := n.configFP(); err != nil { // re-authenticate
		return err
	}
	cmds := [][]string{
		{"CONFIG", "SET", "requirepass", n.pass},
		{"CONFIG", "SET", "protected-mode", "yes"},
		{"CONFIG", "SET", "keepalive", "300"},
		{"CONFIG", "SET", "maxmemory", "0"},
		{"CONFIG", "SET", "autogc", "0"},
		{"CONFIG", "SET", "leaderauth", ""},
	}
	ro := "no"
	if n.readonly {
		ro = "yes"
	}
	cmds = append(cmds, []string{"READONLY", ro})
	for _, c := range cmds {
		if err := n.mustOK(c...); err != nil {
			return err
		}
	}
	return nil
}

// load replaces the dataset of a leader node with the given commands.
func (n *node) load(cmds [][]string) error {
	if n.readonly {
		if err := n.mustOK("READONLY", "no"); err != nil {
			return err
		}
	}
	if _, err := n.configFP(); err != nil {
		return err
	}
	var buf []byte
	buf = append(buf, t38.EncodeCmd("FLUSHDB")...)
	for _, c := range cmds {
		buf = append(buf, t38.EncodeCmd(c...)...)
	}
	if err := n.admin.SendRaw(buf); err != nil {
		return err
	}
	for i := 0; i <= len(cmds); i++ {
		v, err := n.admin.Recv()
		if err != nil {
			return fmt.Errorf("%s load: %w", n.name, err)
		}
		if i == 0 && v.IsErr() {
			return fmt.Errorf("%s FLUSHDB: %s", n.name, v.Str)
		}
		// extras may legitimately answer an error (e.g. RENAME of a missing key)
	}
	if n.readonly {
		if err := n.mustOK("READONLY", "yes"); err != nil {
			return err
		}
	}
	return nil
}

// waitDump polls until the node's dump equals want.
func (n *node) waitDump(want string, budget time.Duration) (bool, error) {
	deadline := time.Now().Add(budget)
	for {
		d, err := t38.TakeDumpOn(n.admin)
		if err == nil && d.Canon() == want {
			return true, nil
		}
		if time.Now().After(deadline) {
			return false, err
		}
		time.Sleep(2 * time.Millisecond)
	}
}

// waitShrinks waits until the number of finished AOFSHRINK runs reaches want.
func (n *node) waitShrinks(want int64, budget time.Duration) bool {
	deadline := time.Now().Add(budget)
	for n.shrinks.Load() < want {
		if time.Now().After(deadline) {
			return false
		}
		time.Sleep(time.Millisecond)
	}
	return true
}

// holdClosedPort binds a TCP socket on 127.0.0.1 without listening: connects
// to it are refused and nobody else can be given the port while it is held.
func holdClosedPort() (port int, release func(), err error) {
	fd, err := syscall.Socket(syscall.AF_INET, syscall.SOCK_STREAM, 0)
	if err != nil {
		return 0, nil, err
	}
	sa := &syscall.SockaddrInet4{Port: 0, Addr: [4]byte{127, 0, 0, 1}}
	if err := syscall.Bind(fd, sa); err != nil {
		syscall.Close(fd)
		return 0, nil, err
	}
	got, err := syscall.Getsockname(fd)
	if err != nil {
		syscall.Close(fd)
		return 0, nil, err
	}
	port = got.(*syscall.SockaddrInet4).Port
	return port, func() { syscall.Close(fd) }, nil
}

func writeConfig(dir string, m map[string]any) error {
	b, _ := json.Marshal(m)
	return os.WriteFile(filepath.Join(dir, "config"), b, 0o600)
}

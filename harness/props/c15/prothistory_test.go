package c15

import (
	"bytes"
	"fmt"
	"io"
	"net"
	"strings"
	"testing"
	"time"

	"github.com/tidwall/tile38/internal/verifhook"
	"github.com/tidwall/tile38/verif/harness/ev"
	"github.com/tidwall/tile38/verif/harness/t38"
	"pgregory.net/rapid"
)

// Protected mode over histories of configuration changes. A server started
// with --protected-mode yes (optionally with requirepass / protected-mode in
// its config file) goes through a short drawn history of CONFIG SET
// requirepass x|"" / protected-mode yes|no / keepalive n / CONFIG REWRITE /
// restart. After EVERY step a fresh loopback connection and a fresh
// connection from 127.0.0.2 are opened and probed with GET + pipelined SET.
// The expected gate is computed from the configuration the server reports
// at that moment (CONFIG GET on an authenticated loopback connection):
// protected iff protected-mode = yes and requirepass is empty.

type histStep struct {
	Op  string `json:"op"` // configset | rewrite | restart
	Key string `json:"key,omitempty"`
	Val string `json:"val"`
}

type histPlan struct {
	FilePass string     `json:"config_file_requirepass"`
	FilePM   string     `json:"config_file_protected_mode"`
	Steps    []histStep `json:"steps"`
	FailedAt int        `json:"failed_after_step,omitempty"`
}

var histPasswords = []string{"cnrpw-h1", "cnrpw-h2"}

func drawHistPlan(rt *rapid.T) histPlan {
	p := histPlan{
		FilePass: rapid.SampledFrom([]string{"", "", "cnrpw-h0"}).Draw(rt, "filepass"),
		FilePM:   rapid.SampledFrom([]string{"", "", "", "no"}).Draw(rt, "filepm"),
	}
	n := rapid.IntRange(1, 6).Draw(rt, "nsteps")
	restarts := 0
	for i := 0; i < n; i++ {
		switch k := rapid.IntRange(0, 13).Draw(rt, "step"); {
		case k <= 2:
			p.Steps = append(p.Steps, histStep{Op: "configset", Key: "requirepass", Val: rapid.SampledFrom(histPasswords).Draw(rt, "pw")})
		case k <= 5:
			p.Steps = append(p.Steps, histStep{Op: "configset", Key: "requirepass", Val: ""})
		case k <= 7:
			p.Steps = append(p.Steps, histStep{Op: "configset", Key: "protected-mode", Val: rapid.SampledFrom([]string{"yes", "no"}).Draw(rt, "pm")})
		case k <= 10:
			p.Steps = append(p.Steps, histStep{Op: "configset", Key: "keepalive", Val: rapid.SampledFrom([]string{"120", "300", "0"}).Draw(rt, "ka")})
		case k <= 12:
			p.Steps = append(p.Steps, histStep{Op: "rewrite"})
		default:
			if restarts == 0 {
				restarts++
				p.Steps = append(p.Steps, histStep{Op: "restart"})
			} else {
				p.Steps = append(p.Steps, histStep{Op: "configset", Key: "requirepass", Val: ""})
			}
		}
	}
	return p
}

// fixedHistPlans are always run first (the shapes of seeded defect C15-r3-2
// and their mirror images).
func fixedHistPlans() []histPlan {
	cs := func(k, v string) histStep { return histStep{Op: "configset", Key: k, Val: v} }
	return []histPlan{
		{FilePass: "cnrpw-h0", Steps: []histStep{cs("requirepass", "")}},
		{Steps: []histStep{cs("requirepass", "cnrpw-h1"), cs("keepalive", "120"), cs("requirepass", "")}},
		{Steps: []histStep{cs("requirepass", "cnrpw-h1"), cs("protected-mode", "yes"), cs("requirepass", ""), cs("keepalive", "300")}},
		{Steps: []histStep{cs("protected-mode", "no"), cs("requirepass", "cnrpw-h1"), cs("protected-mode", "yes"), cs("requirepass", "")}},
		{FilePM: "no", Steps: []histStep{cs("protected-mode", "yes")}},
		{Steps: []histStep{cs("requirepass", "cnrpw-h1"), {Op: "rewrite"}, {Op: "restart"}, cs("requirepass", "")}},
	}
}

// exchangeFrom opens a connection from the given source address, writes the
// payload in one segment (it ends with QUIT) and reads to EOF.
func exchangeFrom(ip, addr string, payload []byte) ([]byte, error, error) {
	d := net.Dialer{Timeout: 10 * time.Second}
	if ip != "" {
		d.LocalAddr = &net.TCPAddr{IP: net.ParseIP(ip)}
	}
	nc, err := d.Dial("tcp", addr)
	if err != nil {
		return nil, nil, err
	}
	defer nc.Close()
	nc.SetWriteDeadline(time.Now().Add(replyTimeout))
	nc.Write(payload)
	nc.SetReadDeadline(time.Now().Add(replyTimeout))
	var buf bytes.Buffer
	_, rerr := io.Copy(&buf, nc)
	return buf.Bytes(), rerr, nil
}

type histRun struct {
	c      *ev.Collector
	n      *node
	dir    string
	passes []string // every password this history may have configured
	probes int
	prot   string // Opts.Protected
}

func (h *histRun) start() error {
	n, err := startNode("prot-history", t38.Opts{Dir: h.dir, Protected: h.prot})
	if err != nil {
		return err
	}
	h.n = n
	return nil
}

// stopSync stops the server and keeps its data directory.
func (h *histRun) stopSync() {
	n := h.n
	n.stopped = true
	n.admin.Close()
	verifhook.Unregister(n.srv.Dir)
	n.srv.Stop()
}

// admin runs a command on the loopback admin connection, authenticating
// with whichever password of the history the server currently has.
func (h *histRun) admin(args ...string) (t38.Value, error) {
	v, err := h.n.admin.Do(args...)
	if err != nil {
		return v, err
	}
	if v.IsErr() && strings.Contains(v.Str, "authentication required") {
		for _, pw := range h.passes {
			if a, err := h.n.admin.Do("AUTH", pw); err == nil && !a.IsErr() {
				return h.n.admin.Do(args...)
			}
		}
	}
	return v, nil
}

func (h *histRun) cfg(name string) (string, error) {
	v, err := h.admin("CONFIG", "GET", name)
	if err != nil {
		return "", err
	}
	if v.IsErr() || len(v.Arr) < 2 {
		return "", fmt.Errorf("CONFIG GET %s: %s", name, v)
	}
	return v.Arr[1].Text(), nil
}

// probe opens the two fresh connections and judges them against the
// configuration the server reports. It returns a violation or "".
func (h *histRun) probe(where string) (key, what string, err error) {
	pass, err := h.cfg("requirepass")
	if err != nil {
		return "", "", err
	}
	pm, err := h.cfg("protected-mode")
	if err != nil {
		return "", "", err
	}
	protected := pm == "yes" && pass == ""
	state := fmt.Sprintf("protected-mode=%s requirepass=%s", pm, map[bool]string{true: "set", false: "empty"}[pass != ""])
	for _, from := range []string{"127.0.0.2", ""} {
		h.probes++
		h.c.Case()
		id := fmt.Sprintf("probe%d", h.probes)
		payload := append(t38.EncodeCmd("GET", "cnrK1", "cnrIa"), t38.EncodeCmd("SET", "cnrK1", id, "POINT", "1", "1")...)
		payload = append(payload, t38.EncodeCmd("QUIT")...)
		raw, rerr, derr := exchangeFrom(from, h.n.srv.Addr, payload)
		if derr != nil {
			h.c.Inconclusive("%s: cannot connect from %q: %v", where, from, derr)
			continue
		}
		ex, err := h.admin("EXISTS", "cnrK1", id)
		if err != nil {
			return "", "", err
		}
		written := ex.Kind == ':' && ex.Int == 1
		if written {
			h.admin("DEL", "cnrK1", id)
		}
		denied := strings.HasPrefix(string(raw), "-DENIED ") && strings.Count(string(raw), "\n") == 1
		leak := findSecret(raw) != ""
		peer := "loopback"
		if from != "" {
			peer = "non-loopback"
		}
		desc := fmt.Sprintf("%s; server reports %s; fresh %s connection: GET+SET+QUIT -> %q (SET applied=%v)", where, state, peer, clip(string(raw), 100), written)
		h.c.Label(fmt.Sprintf("%s/%s/%s", peer, strings.ReplaceAll(state, " ", ","), map[bool]string{true: "denied", false: map[bool]string{true: "served", false: "refused-or-unauthenticated"}[written]}[denied]))
		switch {
		case from != "" && protected:
			h.c.NonTrivial("nonloop-protected|" + where)
			if written || leak {
				return "gate:protected-history:non-loopback-served", desc + ": the configuration is protected (protected-mode yes, no password) but a non-loopback peer was served", nil
			}
			if !denied {
				if rerr != nil && strings.HasPrefix("-DENIED ", string(raw[:min(len(raw), 8)])) {
					h.c.Inconclusive("%s: refusal cut by a reset (%d bytes, %v)", where, len(raw), rerr)
					continue
				}
				return "gate:protected-history:non-loopback-not-denied", desc + ": expected exactly the -DENIED line and end of stream", nil
			}
		case pass != "":
			// not protected because a password is required: nothing without AUTH
			if from != "" {
				h.c.NonTrivial("nonloop-password|" + where)
			}
			if written || leak {
				return "gate:protected-history:unauthenticated-served", desc + ": a password is required but an unauthenticated fresh connection was served", nil
			}
			if from == "" && denied {
				return "gate:protected-history:loopback-denied", desc + ": a loopback peer must never be refused by protected mode", nil
			}
		default:
			// open to this peer: loopback always, non-loopback when protected-mode is no
			if from == "" && denied {
				return "gate:protected-history:loopback-denied", desc + ": a loopback peer must never be refused by protected mode", nil
			}
			if !written {
				// failing closed is not a gate violation
				h.c.Label("impl-mirrored:open-configuration-but-not-served:" + peer)
			}
		}
	}
	return "", "", nil
}

// runHistory executes one plan. A harness problem is returned as err.
func runHistory(c *ev.Collector, plan *histPlan) (key, what string, err error) {
	h := &histRun{c: c, prot: "yes", dir: t38.NewDir("c15-prothist"), passes: append([]string{"cnrpw-h0"}, histPasswords...)}
	cfg := map[string]any{}
	if plan.FilePass != "" {
		cfg["requirepass"] = plan.FilePass
	}
	if plan.FilePM != "" {
		cfg["protected-mode"] = plan.FilePM
	}
	if len(cfg) > 0 {
		if err := writeConfig(h.dir, cfg); err != nil {
			return "", "", err
		}
	}
	if err := h.start(); err != nil {
		return "", "", err
	}
	defer func() { h.n.stopAsync() }()
	if v, err := h.admin("SET", "cnrK1", "cnrIa", "STRING", "cnrSECRETstring"); err != nil || v.IsErr() {
		return "", "", fmt.Errorf("seeding: %v %v", v, err)
	}
	where := fmt.Sprintf("start(file requirepass=%q protected-mode=%q)", plan.FilePass, plan.FilePM)
	if key, what, err = h.probe(where); err != nil || key != "" {
		plan.FailedAt = -1
		return
	}
	for i, st := range plan.Steps {
		switch st.Op {
		case "configset":
			v, err := h.admin("CONFIG", "SET", st.Key, st.Val)
			if err != nil || v.IsErr() {
				return "", "", fmt.Errorf("CONFIG SET %s %q: %v %v", st.Key, st.Val, v, err)
			}
			where += fmt.Sprintf(" ; CONFIG SET %s %q", st.Key, st.Val)
		case "rewrite":
			v, err := h.admin("CONFIG", "REWRITE")
			if err != nil || v.IsErr() {
				return "", "", fmt.Errorf("CONFIG REWRITE: %v %v", v, err)
			}
			where += " ; CONFIG REWRITE"
		case "restart":
			h.stopSync()
			if err := h.start(); err != nil {
				return "", "", err
			}
			where += " ; restart"
		}
		c.Label("step:" + st.Op + ":" + st.Key)
		if key, what, err = h.probe(where); err != nil || key != "" {
			plan.FailedAt = i
			return
		}
	}
	return "", "", nil
}

func TestC15_ProtectedHistory(t *testing.T) {
	c := ev.New("C15", "prothistory", "exploration")
	t.Cleanup(c.Flush)
	c.Rule("server started with --protected-mode yes on a data directory whose config file is empty / names requirepass / names protected-mode no; then a history of 1-6 drawn steps (CONFIG SET requirepass x or \"\", protected-mode yes/no, keepalive n, CONFIG REWRITE, at most one restart on the same directory); six fixed histories run first. After start-up and after EVERY step a fresh connection from 127.0.0.2 and a fresh loopback connection each send GET + SET + QUIT in one segment. Expected gate from the configuration the server reports at that moment (CONFIG GET): protected iff protected-mode=yes and requirepass empty -> the non-loopback peer gets exactly the -DENIED line and the SET is not applied; requirepass set -> nothing served or applied without AUTH on either peer; a loopback peer is never denied. Non-trivial: probes of a non-loopback peer in a protected or password configuration; distinct by the history prefix.")
	c.Assume("CONFIG GET requirepass / protected-mode report the configuration in force")
	var firstErr error
	for _, p := range fixedHistPlans() {
		plan := p
		key, what, err := runHistory(c, &plan)
		if err != nil {
			firstErr = err
			break
		}
		if key != "" {
			c.Violation(key, what, plan)
			t.Errorf("VIOLATION-CANDIDATE key=%s: %s", key, what)
			return
		}
	}
	if firstErr != nil {
		t.Fatalf("HARNESS: %v", firstErr)
	}
	ev.Rapid("prothistory", ev.Pick(20, 30))
	rapid.Check(t, func(rt *rapid.T) {
		plan := drawHistPlan(rt)
		key, what, err := runHistory(c, &plan)
		if err != nil {
			rt.Fatalf("HARNESS: %v", err)
		}
		if c.WantSample() {
			c.Sample(plan)
		}
		if key != "" {
			c.Fail(rt, key, what, plan)
		}
	})
}

func replayHistory(t *testing.T, c *ev.Collector, plan histPlan) {
	key, what, err := runHistory(c, &plan)
	if err != nil {
		t.Fatalf("HARNESS: %v", err)
	}
	if key != "" {
		c.Violation(key, what, plan)
		t.Errorf("VIOLATION-CANDIDATE key=%s: %s", key, what)
	}
}


package c15

import (
	"encoding/json"
	"fmt"
	"os"
	"strings"
	"testing"

	"github.com/tidwall/tile38/verif/harness/ev"
	"github.com/tidwall/tile38/verif/harness/t38"
	"pgregory.net/rapid"
)

// Gate state over histories: gate-changing commands in every letter case
// (command word, keyword arguments, property names), CONFIG REWRITE and
// restarts on the same data directory, each followed by the full probe set.
//
// Rules (no hand-written acceptance table for spellings):
//  1. meaning: a gate-changing command that is answered without error has
//     the effect of its canonical (lower-case) spelling; one that is answered
//     with an error changes nothing.         (READONLY YES must not mean "no")
//  2. reported = effective: what SERVER / CONFIG GET report decides the
//     probes: read_only or following -> every write probe (direct, JSON,
//     EVAL, EVALNA, EVALNASHA, TIMEOUT-wrapped, pipelined, DEL, SETCHAN) is
//     answered with an error and the log file does not grow; requirepass set
//     -> a connection without AUTH gets nothing.
//  3. persistence: read_only and the follow target survive a restart; the
//     password after a restart is the one of the last CONFIG REWRITE.

type gateStep struct {
	Op   string   `json:"op"` // cmd | rewrite | restart
	Args []string `json:"args,omitempty"`
}

type gatePlan struct {
	Steps    []gateStep `json:"steps"`
	FailedAt int        `json:"failed_after_step,omitempty"`
}

func caseVariants(s string) []string {
	out := []string{strings.ToLower(s), strings.ToUpper(s)}
	if len(s) > 0 {
		out = append(out, strings.ToUpper(s[:1])+strings.ToLower(s[1:]))
	}
	var b strings.Builder
	for i, r := range strings.ToLower(s) {
		if i%2 == 1 {
			b.WriteString(strings.ToUpper(string(r)))
		} else {
			b.WriteRune(r)
		}
	}
	return append(out, b.String())
}

func drawCase(rt *rapid.T, label, s string) string {
	return rapid.SampledFrom(caseVariants(s)).Draw(rt, label)
}

func drawGatePlan(rt *rapid.T) gatePlan {
	var p gatePlan
	n := rapid.IntRange(2, 8).Draw(rt, "nsteps")
	restarts := 0
	for i := 0; i < n; i++ {
		switch k := rapid.IntRange(0, 15).Draw(rt, "step"); {
		case k <= 5:
			p.Steps = append(p.Steps, gateStep{Op: "cmd", Args: []string{drawCase(rt, "w", "readonly"), drawCase(rt, "a", rapid.SampledFrom([]string{"yes", "no"}).Draw(rt, "yn"))}})
		case k <= 7:
			p.Steps = append(p.Steps, gateStep{Op: "cmd", Args: []string{drawCase(rt, "w", rapid.SampledFrom([]string{"follow", "slaveof"}).Draw(rt, "fw")), "@leaderhost", "@leaderport"}})
		case k <= 9:
			p.Steps = append(p.Steps, gateStep{Op: "cmd", Args: []string{drawCase(rt, "w", "follow"), drawCase(rt, "a1", "no"), drawCase(rt, "a2", "one")}})
		case k <= 11:
			p.Steps = append(p.Steps, gateStep{Op: "cmd", Args: []string{drawCase(rt, "w", "config"), drawCase(rt, "s", "set"), drawCase(rt, "p", "requirepass"),
				rapid.SampledFrom([]string{"cnrpw-g1", "", "cnrpw-g2"}).Draw(rt, "pw")}})
		case k <= 12:
			p.Steps = append(p.Steps, gateStep{Op: "rewrite"})
		default:
			if restarts < ev.Pick(1, 2) {
				restarts++
				p.Steps = append(p.Steps, gateStep{Op: "restart"})
			} else {
				p.Steps = append(p.Steps, gateStep{Op: "cmd", Args: []string{"READONLY", drawCase(rt, "a", "yes")}})
			}
		}
	}
	return p
}

// fixedGatePlans: every role/gate state followed by a restart, and every
// spelling of the READONLY keywords in both starting states.
func fixedGatePlans() []gatePlan {
	cmd := func(a ...string) gateStep { return gateStep{Op: "cmd", Args: a} }
	restart, rewrite := gateStep{Op: "restart"}, gateStep{Op: "rewrite"}
	plans := []gatePlan{
		{Steps: []gateStep{cmd("READONLY", "yes"), restart, cmd("READONLY", "no")}},
		{Steps: []gateStep{cmd("FOLLOW", "@leaderhost", "@leaderport"), restart, cmd("FOLLOW", "no", "one")}},
		{Steps: []gateStep{cmd("CONFIG", "SET", "requirepass", "cnrpw-g1"), rewrite, restart, cmd("READONLY", "yes"), restart}},
		{Steps: []gateStep{cmd("READONLY", "yes"), cmd("FOLLOW", "@leaderhost", "@leaderport"), restart, cmd("FOLLOW", "NO", "ONE")}},
		{Steps: []gateStep{cmd("CONFIG", "SET", "REQUIREPASS", "cnrpw-g1"), cmd("config", "set", "RequirePass", "cnrpw-g2"), cmd("CONFIG", "SET", "requirepass", "cnrpw-g1"), cmd("Config", "Set", "Requirepass", "")}},
	}
	var spell gatePlan
	for _, yes := range caseVariants("yes") {
		for _, no := range caseVariants("no") {
			spell.Steps = append(spell.Steps, cmd("READONLY", yes), cmd("readonly", no), cmd("ReadOnly", "yes"), cmd("READONLY", no), cmd("READONLY", "no"), cmd("rEADONLY", yes))
		}
	}
	return append(plans, spell)
}

type gateState struct {
	ro, following bool
	pass          string
}

type gateRun struct {
	histRun
	leader   *node
	filePass string // password in force after a restart (last CONFIG REWRITE)
	probeSeq int
}

// reported reads the gate state the server reports.
func (g *gateRun) reported() (st gateState, err error) {
	if st.pass, err = g.cfg("requirepass"); err != nil {
		return
	}
	v, err := g.admin("SERVER")
	if err != nil {
		return st, err
	}
	if v.IsErr() {
		if strings.Contains(v.Str, "catching up") {
			// a follower that has not caught up: read_only comes from the config file
			st.following = true
			b, _ := os.ReadFile(g.dir + "/config")
			var m map[string]any
			json.Unmarshal(b, &m)
			st.ro, _ = m["read_only"].(bool)
			return st, nil
		}
		return st, fmt.Errorf("SERVER: %s", v.Str)
	}
	m := serverMap(v)
	st.ro = m["read_only"] == "true"
	st.following = m["following"] != ""
	return st, nil
}

// writeProbes is the probe set: ways to write that all must be refused on a
// read-only server or a follower.
func (g *gateRun) writeProbes() [][][]string {
	g.probeSeq++
	id := func(k string) string { return fmt.Sprintf("gp%d%s", g.probeSeq, k) }
	script := "return tile38.call('set', KEYS[1], ARGV[1], 'POINT', 33, -115)"
	one := func(a ...string) [][]string { return [][]string{a} }
	return [][][]string{
		one("SET", "gate", id("a"), "POINT", "1", "1"),
		{{"OUTPUT", "json"}, {"SET", "gate", id("b"), "POINT", "1", "1"}},
		one("EVAL", script, "1", "gate", id("c")),
		one("EVALNA", script, "1", "gate", id("d")),
		{{"SCRIPT", "LOAD", script}, {"EVALNASHA", sha1hex(script), "1", "gate", id("e")}},
		one("TIMEOUT", "100", "EVALNA", script, "1", "gate", id("f")),
		{{"SET", "gate", id("g"), "POINT", "1", "1"}, {"FSET", "gate", id("g"), "f", "1"}},
		one("DEL", "gate", "seed"),
		one("SETCHAN", "gatechan", "NEARBY", "gate", "FENCE", "POINT", "1", "1", "100"),
		one("JSET", "gate", "seedjson", "a", "1"),
		one("FLUSHDB"),
	}
}

// probe checks rule 2 against the reported state.
func (g *gateRun) probe(where string, st gateState) (key, what string, err error) {
	gated := st.ro || st.following
	aofBefore := int64(-1)
	if fi, e := os.Stat(g.n.srv.AOFPath()); e == nil {
		aofBefore = fi.Size()
	}
	state := fmt.Sprintf("read_only=%v following=%v requirepass=%s", st.ro, st.following, map[bool]string{true: "set", false: "empty"}[st.pass != ""])
	for _, seq := range g.writeProbes() {
		g.c.Case()
		p, err := dialPre(g.n.srv.Addr)
		if err != nil {
			return "", "", err
		}
		if st.pass != "" {
			if v, err := p.do("AUTH", st.pass); err != nil || v.IsErr() {
				p.nc.Close()
				return "gate:gate-state:reported-password-rejected", fmt.Sprintf("%s; server reports %s but AUTH with the reported password answers %v %v", where, state, v, err), nil
			}
		}
		var last t38.Value
		for _, cmd := range seq {
			if last, err = p.do(cmd...); err != nil {
				break
			}
		}
		p.nc.Close()
		if err != nil {
			return "", "", fmt.Errorf("probe %v: %w", seq, err)
		}
		isErr, msg := replyErr(last)
		final := seq[len(seq)-1]
		if gated {
			g.c.NonTrivial(fmt.Sprintf("gated|%s|%s|%s", state, final[0], where))
			if !isErr {
				return "gate:gate-state:write-accepted:" + strings.ToLower(final[0]),
					fmt.Sprintf("%s; server reports %s; %s -> %s: a write was accepted", where, state, t38.CmdString(final), clip(last.String(), 80)), nil
			}
			g.c.Label("write-probe-refused:" + strings.ToLower(final[0]))
		} else if isErr && (strings.Contains(msg, "read only") || strings.Contains(msg, "not the leader")) {
			g.c.Label("impl-mirrored:reported-writable-but-refused")
		}
	}
	if gated && st.ro && !st.following && aofBefore >= 0 {
		if fi, e := os.Stat(g.n.srv.AOFPath()); e == nil && fi.Size() != aofBefore {
			return "gate:gate-state:log-grew", fmt.Sprintf("%s; server reports %s; the log grew from %d to %d bytes during refused write probes", where, state, aofBefore, fi.Size()), nil
		}
	}
	if st.pass != "" {
		g.c.Case()
		g.c.NonTrivial("unauth|" + where)
		for _, cmd := range [][]string{{"GET", "gate", "seed"}, {"SET", "gate", "unauth", "POINT", "1", "1"}, {"EVALNA", "return tile38.call('get','gate','seed')", "0"}} {
			res := execCell(execOpts{addr: g.n.srv.Addr, v: vPlain, wire: cmd})
			if !res.IsErr {
				return "gate:gate-state:unauthenticated-served", fmt.Sprintf("%s; server reports %s; %s without AUTH -> %s", where, state, t38.CmdString(cmd), res.First), nil
			}
		}
	}
	if !gated {
		// keep the seed objects in place for the next round
		g.admin("SET", "gate", "seed", "POINT", "1", "1")
		g.admin("SET", "gate", "seedjson", "STRING", `{"a":0}`)
	}
	return "", "", nil
}

func runGatePlan(c *ev.Collector, plan *gatePlan) (key, what string, err error) {
	g := &gateRun{}
	g.c, g.dir, g.prot = c, t38.NewDir("c15-gatestate"), "no"
	g.passes = []string{"cnrpw-g1", "cnrpw-g2"}
	if g.leader, err = startNode("gate-leader", t38.Opts{}); err != nil {
		return "", "", err
	}
	g.leader.keepRunning = true
	defer g.leader.stopAsync()
	g.leader.mustOK("SET", "gate", "fromleader", "POINT", "2", "2")
	if err = g.start(); err != nil {
		return "", "", err
	}
	defer func() { g.n.stopAsync() }()
	g.admin("SET", "gate", "seed", "POINT", "1", "1")
	g.admin("SET", "gate", "seedjson", "STRING", `{"a":0}`)
	cur, err := g.reported()
	if err != nil {
		return "", "", err
	}
	where := "start"
	for i, st := range plan.Steps {
		plan.FailedAt = i
		before := cur
		switch st.Op {
		case "cmd":
			args := append([]string{}, st.Args...)
			for j, a := range args {
				switch a {
				case "@leaderhost":
					args[j] = "127.0.0.1"
				case "@leaderport":
					args[j] = itoa(g.leader.srv.Port)
				}
			}
			v, err := g.admin(args...)
			if err != nil {
				return "", "", err
			}
			where += " ; " + t38.CmdString(args) + " -> " + clip(v.String(), 40)
			if cur, err = g.reported(); err != nil {
				return "", "", err
			}
			want := before
			word := strings.ToLower(args[0])
			if !v.IsErr() {
				switch {
				case word == "readonly" && len(args) == 2:
					want.ro = strings.ToLower(args[1]) == "yes"
				case (word == "follow" || word == "slaveof") && len(args) == 3:
					want.following = !(strings.ToLower(args[1]) == "no" && strings.ToLower(args[2]) == "one")
				case word == "config" && len(args) == 4:
					want.pass = args[3]
				}
			}
			c.Label(fmt.Sprintf("gate-command:%s:%s", word, map[bool]string{true: "refused", false: "accepted"}[v.IsErr()]))
			c.Case()
			if cur != want {
				verdict := "was acknowledged but does not have the effect of its canonical spelling"
				if v.IsErr() {
					verdict = "was answered with an error but changed the gate state"
				}
				return "gate:gate-state:command-meaning:" + word, fmt.Sprintf("%s: the command %s: server reports read_only=%v following=%v requirepass=%q, expected read_only=%v following=%v requirepass=%q",
					where, verdict, cur.ro, cur.following, cur.pass, want.ro, want.following, want.pass), nil
			}
		case "rewrite":
			if v, err := g.admin("CONFIG", "REWRITE"); err != nil || v.IsErr() {
				return "", "", fmt.Errorf("CONFIG REWRITE: %v %v", v, err)
			}
			g.filePass = cur.pass
			where += " ; CONFIG REWRITE"
		case "restart":
			g.stopSync()
			if err = g.start(); err != nil {
				return "", "", err
			}
			where += " ; restart"
			if cur, err = g.reported(); err != nil {
				return "", "", err
			}
			want := before
			want.pass = g.filePass
			c.Case()
			c.NonTrivial("restart|" + where)
			if cur != want {
				return "gate:gate-state:restart-lost-gate", fmt.Sprintf("%s: after the restart the server reports read_only=%v following=%v requirepass=%q, expected read_only=%v following=%v requirepass=%q",
					where, cur.ro, cur.following, cur.pass, want.ro, want.following, want.pass), nil
			}
		}
		c.Label("step:" + st.Op)
		if key, what, err = g.probe(where, cur); err != nil || key != "" {
			return
		}
	}
	plan.FailedAt = 0
	return "", "", nil
}

func TestC15_GateState(t *testing.T) {
	c := ev.New("C15", "gatestate", "exploration")
	t.Cleanup(c.Flush)
	c.Rule("one restartable server plus a static leader; histories of gate-changing commands whose command word, keyword arguments and property names are drawn in lower/UPPER/Title/aLtErNaTiNg case (READONLY yes|no, FOLLOW|SLAVEOF host port, FOLLOW no one, CONFIG SET requirepass x|\"\"), CONFIG REWRITE and up to two restarts on the same directory; six fixed histories first (every role/gate state followed by a restart; all 4x4 spellings of READONLY yes/no from both starting states). After every step: (1) an acknowledged gate command has the effect of its lower-case spelling, a refused one changes nothing (state as reported by SERVER read_only/following and CONFIG GET requirepass); (2) the reported state decides 11 write probes on fresh connections (SET, SET in JSON mode, EVAL, EVALNA, EVALNASHA, TIMEOUT-wrapped EVALNA, SET+FSET, DEL, SETCHAN, JSET, FLUSHDB): read_only or following -> all refused and, for read-only, the log file does not grow; requirepass set -> GET/SET/EVALNA without AUTH refused; (3) read_only and the follow target survive a restart, the password after a restart is the last CONFIG REWRITE's. Non-trivial: probes in a gated state and restarts; distinct by history prefix.")
	for _, p := range fixedGatePlans() {
		plan := p
		key, what, err := runGatePlan(c, &plan)
		if err != nil {
			t.Fatalf("HARNESS: %v", err)
		}
		if key != "" {
			c.Violation(key, what, plan)
			t.Errorf("VIOLATION-CANDIDATE key=%s: %s", key, what)
			return
		}
	}
	ev.Rapid("gatestate", ev.Pick(6, 15))
	rapid.Check(t, func(rt *rapid.T) {
		plan := drawGatePlan(rt)
		key, what, err := runGatePlan(c, &plan)
		if err != nil {
			rt.Fatalf("HARNESS: %v", err)
		}
		if c.WantSample() {
			c.Sample(plan)
		}
		if key != "" {
			c.Fail(rt, key, what, plan)
		}
	})
}

func replayGatePlan(t *testing.T, c *ev.Collector, plan gatePlan) {
	key, what, err := runGatePlan(c, &plan)
	if err != nil {
		t.Fatalf("HARNESS: %v", err)
	}
	if key != "" {
		c.Violation(key, what, plan)
		t.Errorf("VIOLATION-CANDIDATE key=%s: %s", key, what)
	}
}


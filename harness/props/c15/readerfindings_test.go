package c15

import (
	"encoding/binary"
	"encoding/json"
	"fmt"
	"os"
	"os/exec"
	"path/filepath"
	"strings"
	"sync"
	"sync/atomic"
	"syscall"
	"testing"
	"time"

	"github.com/tidwall/tile38/verif/harness/ev"
	"github.com/tidwall/tile38/verif/harness/t38"
	"pgregory.net/rapid"
)

// ---- config-rewrite-not-atomic ------------------------------------------------------------
//
// The gate settings (requirepass, read_only, follow_host) live in the config
// file, which the server rewrites at every start and on READONLY / FOLLOW /
// CONFIG REWRITE. Whatever happens to the process, the file on disk must at
// every instant be a complete configuration that still holds the gates.

const cfgPass = "cnrpw-cfg"

func gateConfigOK(path string) (ok bool, why string) {
	b, err := os.ReadFile(path)
	if err != nil {
		return false, "unreadable: " + err.Error()
	}
	if len(b) == 0 {
		return false, "config file is empty (0 bytes)"
	}
	var m map[string]any
	if err := json.Unmarshal(b, &m); err != nil {
		return false, fmt.Sprintf("config file is not valid JSON (%d bytes): %q", len(b), clip(string(b), 60))
	}
	if m["requirepass"] != cfgPass {
		return false, fmt.Sprintf("requirepass is gone: %q", clip(string(b), 120))
	}
	if ro, _ := m["read_only"].(bool); !ro {
		return false, fmt.Sprintf("read_only is gone: %q", clip(string(b), 120))
	}
	return true, ""
}

// dirWatch records inotify events of a directory.
type dirWatch struct {
	fd     int
	stop   atomic.Bool
	wg     sync.WaitGroup
	mu     sync.Mutex
	events []string // "MODIFY config", "MOVED_TO config", ...
	empty  int      // times the config file was seen with length 0 right after an event
}

func watchDir(dir string) (*dirWatch, error) {
	fd, err := syscall.InotifyInit1(syscall.IN_NONBLOCK | syscall.IN_CLOEXEC)
	if err != nil {
		return nil, err
	}
	mask := uint32(syscall.IN_MODIFY | syscall.IN_CREATE | syscall.IN_MOVED_TO | syscall.IN_MOVED_FROM | syscall.IN_DELETE | syscall.IN_CLOSE_WRITE)
	if _, err := syscall.InotifyAddWatch(fd, dir, mask); err != nil {
		syscall.Close(fd)
		return nil, err
	}
	w := &dirWatch{fd: fd}
	w.wg.Add(1)
	go func() {
		defer w.wg.Done()
		buf := make([]byte, 64*1024)
		for {
			n, err := syscall.Read(fd, buf)
			if n <= 0 || err != nil {
				if w.stop.Load() {
					return
				}
				time.Sleep(50 * time.Microsecond)
				continue
			}
			for off := 0; off+16 <= n; {
				mask := binary.LittleEndian.Uint32(buf[off+4:])
				l := int(binary.LittleEndian.Uint32(buf[off+12:]))
				name := strings.TrimRight(string(buf[off+16:off+16+l]), "\x00")
				off += 16 + l
				var kinds []string
				for bit, k := range map[uint32]string{syscall.IN_MODIFY: "MODIFY", syscall.IN_CREATE: "CREATE", syscall.IN_MOVED_TO: "MOVED_TO",
					syscall.IN_MOVED_FROM: "MOVED_FROM", syscall.IN_DELETE: "DELETE", syscall.IN_CLOSE_WRITE: "CLOSE_WRITE"} {
					if mask&bit != 0 {
						kinds = append(kinds, k)
					}
				}
				if name == "config" {
					if fi, err := os.Stat(filepath.Join(dir, "config")); err == nil && fi.Size() == 0 {
						w.mu.Lock()
						w.empty++
						w.mu.Unlock()
					}
				}
				w.mu.Lock()
				for _, k := range kinds {
					if len(w.events) < 4000 {
						w.events = append(w.events, k+" "+name)
					}
				}
				w.mu.Unlock()
			}
		}
	}()
	return w, nil
}

func (w *dirWatch) close() (events []string, empty int) {
	time.Sleep(20 * time.Millisecond) // let queued events arrive (reporting only)
	w.stop.Store(true)
	w.wg.Wait()
	syscall.Close(w.fd)
	return w.events, w.empty
}

func serverArgs(dir string, port int) []string {
	return []string{"--protected-mode", "no", "-d", dir, "-p", itoa(port), "-h", "127.0.0.1"}
}

func TestC15_ConfigRewrite(t *testing.T) {
	const id = "config-rewrite-not-atomic"
	c := ev.New("C15", "configrewrite", "fault_enumeration")
	t.Cleanup(c.Flush)
	c.Rule("regression probes of finding " + id + " on a child-process server whose config file holds requirepass and read_only. (1) deterministic: the data directory is watched with inotify during a start, READONLY no/yes and CONFIG REWRITE: the existing config file must never be modified in place (any MODIFY/CLOSE_WRITE event on 'config' means it was truncated and rewritten, so a kill in between loses the gates) nor be seen with length 0; it may only be replaced by a rename. (2) fault enumeration: the server is started and SIGKILLed after 0-80 ms (evenly spread, drawn sub-millisecond jitter), 50 (thorough 120) times; after every kill the config file must be complete JSON that still holds requirepass and read_only. Non-trivial: kills (distinct by delay) and watched rewrites.")
	if t38.ServerBin() == "" {
		c.Inconclusive("no server binary (VERIF_SERVER_BIN): probes need a child process")
		return
	}
	report := func(what string, replay any) {
		if ev.KnownActive(id) {
			c.Known(id, what)
		} else {
			c.Violation(id, what, replay)
			t.Errorf("VIOLATION-CANDIDATE key=%s: %s", id, what)
		}
	}
	newDir := func() string {
		dir := t38.NewDir("c15-cfgrewrite")
		if err := writeConfig(dir, map[string]any{"requirepass": cfgPass, "read_only": true, "server_id": "c15c15c15c15c15c15c15c15c15c15c1"}); err != nil {
			t.Fatalf("HARNESS: %v", err)
		}
		return dir
	}
	// (1) watched rewrites
	{
		dir := newDir()
		w, err := watchDir(dir)
		if err != nil {
			c.Inconclusive("inotify unavailable: %v", err)
		} else {
			p, err := t38.StartProc(t38.Opts{Dir: dir})
			if err != nil {
				t.Fatalf("HARNESS: %v", err)
			}
			conn, err := t38.Dial(p.Addr)
			if err != nil {
				t.Fatalf("HARNESS: %v", err)
			}
			for _, cmd := range [][]string{{"AUTH", cfgPass}, {"READONLY", "no"}, {"READONLY", "yes"}, {"CONFIG", "REWRITE"}} {
				if v, err := conn.Do(cmd...); err != nil || v.IsErr() {
					t.Fatalf("HARNESS: %v: %v %v", cmd, v, err)
				}
			}
			conn.Close()
			p.Stop()
			events, empty := w.close()
			c.Case()
			var inPlace, renames int
			for _, e := range events {
				switch e {
				case "MODIFY config", "CLOSE_WRITE config":
					inPlace++
				case "MOVED_TO config":
					renames++
				}
			}
			c.LabelN("watched:config-replaced-by-rename", renames)
			c.LabelN("watched:config-modified-in-place", inPlace)
			c.NonTrivial(fmt.Sprintf("watch|%d|%d", inPlace, renames))
			c.Sample(map[string]any{"inotify_events_on_config": filterEvents(events, "config")})
			if inPlace > 0 || empty > 0 {
				report(fmt.Sprintf("start + READONLY no/yes + CONFIG REWRITE: the existing config file was modified in place %d times (seen with length 0: %d times) instead of being replaced atomically: a kill at that moment leaves a server without requirepass/read_only", inPlace, empty),
					map[string]any{"events": filterEvents(events, "config")})
			} else if renames == 0 {
				c.Inconclusive("no rewrite of the config file was observed at all (%d events)", len(events))
			}
			if ok, why := gateConfigOK(filepath.Join(dir, "config")); !ok {
				report("after start, READONLY no/yes, CONFIG REWRITE and a kill: "+why, nil)
			}
		}
	}
	// (2) kill shortly after start
	ev.Rapid("configrewrite", 1)
	t.Run("kills", func(t *testing.T) { killLoop(t, c, id, newDir) })
}

func killLoop(t *testing.T, c *ev.Collector, id string, newDir func() string) {
	rapid.Check(t, func(rt *rapid.T) {
		// delays spread evenly over 0-80 ms (rapid's integers favour small values), drawn jitter below 1 ms
		n := ev.Pick(50, 120)
		jitter := rapid.SliceOfN(rapid.IntRange(0, 999), n, n).Draw(rt, "jitter_us")
		delays := make([]int, n)
		for i := range delays {
			delays[i] = (i*37%80)*1000 + jitter[i]
		}
		dir := newDir()
		for i, us := range delays {
			c.Case()
			cmd := exec.Command(t38.ServerBin(), serverArgs(dir, t38.FreePort())...)
			cmd.SysProcAttr = &syscall.SysProcAttr{Pdeathsig: syscall.SIGKILL}
			if err := cmd.Start(); err != nil {
				rt.Fatalf("HARNESS: %v", err)
			}
			time.Sleep(time.Duration(us) * time.Microsecond)
			cmd.Process.Signal(syscall.SIGKILL)
			cmd.Wait()
			c.NonTrivial(fmt.Sprintf("kill|%d", us/1000))
			c.Label(fmt.Sprintf("killed-after:%02d-%02dms", us/20000*20, us/20000*20+20))
			if ok, why := gateConfigOK(filepath.Join(dir, "config")); !ok {
				what := fmt.Sprintf("start #%d killed after %d us: %s; the next start would come up without its gates", i+1, us, why)
				if ev.KnownActive(id) {
					c.Known(id, what)
					return
				}
				c.Fail(rt, id, what, map[string]any{"kill_after_us": delays[:i+1]})
			}
		}
	})
}

func filterEvents(events []string, name string) []string {
	var out []string
	for _, e := range events {
		if strings.HasSuffix(e, " "+name) || strings.Contains(e, " "+name+".") {
			out = append(out, e)
		}
	}
	if len(out) > 40 {
		out = out[:40]
	}
	return out
}

// ---- follower-leader-switch-serves-partial ---------------------------------------------
//
// F follows A and is caught up. FOLLOW B, where B holds a large dataset: from
// the acknowledgement until F has caught up with B every read must be refused.
// Interval oracle: a segment "HEALTHZ ; <read> ; HEALTHZ" is written at once
// on one connection; if the SECOND health check still says the follower is
// not caught up, the read before it ran while it was not (catching up ends
// once per follow session), so it must have been refused.

func notCaughtUp(v t38.Value) bool {
	isErr, msg := replyErr(v)
	return isErr && (strings.Contains(msg, "catching up") || strings.Contains(msg, "not caught up"))
}

func TestC15_LeaderSwitch(t *testing.T) {
	const id = "follower-leader-switch-serves-partial"
	c := ev.New("C15", "leaderswitch", "exploration")
	t.Cleanup(c.Flush)
	nObjs := ev.Pick(60000, 80000)
	c.Rule(fmt.Sprintf("regression probe of finding %s and gate mode 'follower switched to another leader': F follows A (small) and is caught up; FOLLOW B (B holds %d objects). From the acknowledgement on, segments 'HEALTHZ ; read ; HEALTHZ' are written on one connection, the read rotating over SCAN big COUNT, SCAN big LIMIT 1, GET, KEYS *, NEARBY, SERVER, TIMEOUT-wrapped SCAN, EVALRO get, EVALNA scan, HOOKS *, in RESP and JSON mode; whenever the second HEALTHZ still says not caught up the read must have been answered with an error. Repeated for a switch back. Non-trivial: reads sampled while not caught up (inconclusive if none); distinct by (read, reply class).", id, nObjs))
	report := func(what string, replay any) {
		if ev.KnownActive(id) {
			c.Known(id, what)
		} else {
			c.Violation(id, what, replay)
			t.Errorf("VIOLATION-CANDIDATE key=%s: %s", id, what)
		}
	}
	a, err := startNode("switch-a", t38.Opts{})
	if err != nil {
		t.Fatalf("HARNESS: %v", err)
	}
	a.keepRunning = true
	defer a.stopAsync()
	b, err := startNode("switch-b", t38.Opts{})
	if err != nil {
		t.Fatalf("HARNESS: %v", err)
	}
	b.keepRunning = true
	defer b.stopAsync()
	f, err := startNode("switch-f", t38.Opts{})
	if err != nil {
		t.Fatalf("HARNESS: %v", err)
	}
	defer f.stopAsync()
	a.mustOK("SET", "small", "one", "POINT", "1", "1")
	// big dataset on B: pipelined SETs (MASSINSERT picks its own key names)
	{
		var buf []byte
		flush := func(n int) {
			b.admin.SendRaw(buf)
			for i := 0; i < n; i++ {
				if _, err := b.admin.Recv(); err != nil {
					t.Fatalf("HARNESS: loading B: %v", err)
				}
			}
			buf = buf[:0]
		}
		pending := 0
		for i := 0; i < nObjs; i++ {
			buf = append(buf, t38.EncodeCmd("SET", "big", fmt.Sprintf("o%d", i), "FIELD", "f", itoa(i), "POINT", fmt.Sprintf("%d.5", i%80), fmt.Sprintf("%d.5", i%170))...)
			pending++
			if pending == 2000 {
				flush(pending)
				pending = 0
			}
		}
		flush(pending)
	}
	waitCaught := func(budget time.Duration) bool {
		deadline := time.Now().Add(budget)
		for time.Now().Before(deadline) {
			if v, err := f.do("HEALTHZ"); err == nil && !v.IsErr() {
				return true
			}
			time.Sleep(2 * time.Millisecond)
		}
		return false
	}
	if err := f.mustOK("FOLLOW", "127.0.0.1", itoa(a.srv.Port)); err != nil {
		t.Fatalf("HARNESS: %v", err)
	}
	if !waitCaught(60 * time.Second) {
		c.Inconclusive("follower did not catch up with its first leader within 60s")
		return
	}
	reads := [][]string{
		{"SCAN", "big", "COUNT"}, {"SCAN", "big", "LIMIT", "1"}, {"GET", "big", "o1"}, {"KEYS", "*"}, {"GET", "small", "one"},
		{"NEARBY", "big", "LIMIT", "1", "POINT", "1.5", "1.5"}, {"SERVER"}, {"TIMEOUT", "100", "SCAN", "big", "COUNT"},
		{"EVALRO", "return tile38.call('get','big','o1')", "0"}, {"EVALNA", "return tile38.call('scan','big','COUNT')", "0"}, {"HOOKS", "*"},
		{"EXISTS", "big", "o1"}, {"TYPE", "big"}, {"BOUNDS", "big"},
	}
	sampled := 0
	for round, target := range []*node{b, a, b} {
		conn, err := dialPre(f.srv.Addr)
		if err != nil {
			t.Fatalf("HARNESS: %v", err)
		}
		jsonMode := round == 2
		if jsonMode {
			conn.do("OUTPUT", "json")
		}
		if err := f.mustOK("FOLLOW", "127.0.0.1", itoa(target.srv.Port)); err != nil {
			t.Fatalf("HARNESS: %v", err)
		}
		deadline := time.Now().Add(120 * time.Second)
		for i := 0; ; i++ {
			read := reads[i%len(reads)]
			seg := append(append(t38.EncodeCmd("HEALTHZ"), t38.EncodeCmd(read...)...), t38.EncodeCmd("HEALTHZ")...)
			conn.nc.SetWriteDeadline(time.Now().Add(replyTimeout))
			if _, err := conn.nc.Write(seg); err != nil {
				t.Fatalf("HARNESS: %v", err)
			}
			var vs [3]t38.Value
			for k := range vs {
				conn.nc.SetReadDeadline(time.Now().Add(replyTimeout))
				if vs[k], err = t38.ReadValue(conn.br); err != nil {
					t.Fatalf("HARNESS: reading replies: %v", err)
				}
			}
			c.Case()
			if !notCaughtUp(vs[2]) {
				if isErr, _ := replyErr(vs[2]); !isErr {
					break // caught up with the new leader
				}
			} else {
				sampled++
				isErr, msg := replyErr(vs[1])
				c.NonTrivial(fmt.Sprintf("%s|%v|%v", read[0], isErr, jsonMode))
				c.Label("sampled-while-not-caught-up:" + strings.ToLower(read[0]))
				if !isErr {
					report(fmt.Sprintf("F (caught up with its old leader) was told FOLLOW %s; while HEALTHZ still answered %q, %s was answered from the partly loaded dataset: %s",
						target.name, clip(vs[2].String(), 60), t38.CmdString(read), clip(vs[1].String(), 100)),
						map[string]any{"round": round, "read": read, "objects_on_new_leader": nObjs})
					conn.nc.Close()
					return
				}
				_ = msg
			}
			if time.Now().After(deadline) {
				c.Inconclusive("round %d: follower did not catch up with %s within 120s", round, target.name)
				conn.nc.Close()
				return
			}
		}
		conn.nc.Close()
	}
	if sampled == 0 {
		c.Inconclusive("no read could be sampled between the FOLLOW acknowledgement and caught-up (%d objects load too fast)", nObjs)
	}
	c.LabelN("reads-sampled-while-not-caught-up", sampled)
}

package c15

import (
	"crypto/sha1"
	"encoding/hex"
	"fmt"
	"strconv"
	"strings"

	"github.com/tidwall/tile38/verif/harness/gen"
	"pgregory.net/rapid"
)

// Names used by generated commands. They exist in the prepared state so that
// generated writes hit existing data, but they are NOT secret: error messages
// may echo them. Secret canary tokens (below) never occur in a generated
// command, only in the prepared data.
var ns = gen.Names{
	Keys:   []string{"cnrK1", "cnrK2", "cnrK3"},
	IDs:    []string{"cnrIa", "cnrIb", "cnrIc", "cnrId"},
	Fields: []string{"cnrF", "cnrG", "cnrH"},
}

// Secret canary tokens: present only in prepared data (a key name, an id, a
// field name, string and JSON values, a hook endpoint and meta, coordinates
// and a field value). A reply containing one of them carries stored data.
var secretTokens = []string{"cnrSECRET", "77310077"}

const (
	hookName = "cnrHookA"
	chanName = "cnrChanA"
	altPass  = "cnrpw-alt"
)

// coreState is the fixed part of the prepared dataset.
func coreState() [][]string {
	return [][]string{
		{"SET", "cnrK1", "cnrIa", "FIELD", "cnrF", "77310077", "FIELD", "cnrSECRETfield", "5", "POINT", "33.77310077", "-115.77310077"},
		{"SET", "cnrK1", "cnrIb", "FIELD", "cnrG", "12", "EX", "500000", "POINT", "33.5", "-115.5"},
		{"SET", "cnrK1", "cnrIc", "OBJECT", `{"type":"Polygon","coordinates":[[[-115.8,33.4],[-115.4,33.4],[-115.4,33.8],[-115.8,33.8],[-115.8,33.4]]]}`},
		// no generated command names this id, so drawn extras can never remove these canaries
		{"SET", "cnrK1", "cnrSECRETid", "FIELD", "cnrSECRETfield2", "77310077", "POINT", "33.6", "-115.6"},
		{"SET", "cnrK2", "cnrIa", "FIELD", "cnrF", "3", "OBJECT", `{"type":"Feature","geometry":{"type":"Point","coordinates":[-115.77310077,33.77310077]},"properties":{"name":"cnrSECRETname","a":{"b":1}}}`},
		{"SET", "cnrK2", "cnrIb", "BOUNDS", "33.1", "-115.9", "33.3", "-115.7"},
		{"SET", "cnrK3", "cnrIa", "STRING", "cnrSECRETstring"},
		{"SET", "cnrK3", "cnrIb", "STRING", `{"a":{"b":"cnrSECRETjson"},"n":{"m":"x"},"name":"q"}`},
		{"SET", "cnrSECRETkey", "cnrIa", "POINT", "10", "10"},
		{"SETHOOK", hookName, "local://cnrSECRETendpoint", "META", "cnrSECRETmeta", "v", "NEARBY", "cnrK1", "FENCE", "POINT", "33.5", "-115.5", "50000"},
		{"SETCHAN", chanName, "WITHIN", "cnrK2", "FENCE", "BOUNDS", "33", "-116", "34", "-115"},
	}
}

var writeNames = map[string]bool{"set": true, "fset": true, "del": true, "pdel": true, "drop": true, "rename": true,
	"renamenx": true, "expire": true, "persist": true, "jset": true, "jdel": true}

// drawExtras draws a few extra writes applied on top of the core state
// ("random states"); FLUSHDB and DROP are left out so the canaries survive.
func drawExtras(rt *rapid.T, max int) [][]string {
	n := rapid.IntRange(0, max).Draw(rt, "nextras")
	var out [][]string
	for tries := 0; len(out) < n && tries < 200; tries++ {
		cmd := gen.KeyspaceCmd(rt, ns)
		name := strings.ToLower(cmd[0])
		if !writeNames[name] || name == "drop" || name == "pdel" {
			continue
		}
		out = append(out, cmd)
	}
	return out
}

func pick(rt *rapid.T, label string, xs ...string) string {
	return rapid.SampledFrom(xs).Draw(rt, label)
}

func itoa(n int) string { return strconv.Itoa(n) }

func near(rt *rapid.T, label string, base float64) string {
	d := float64(rapid.IntRange(-400, 400).Draw(rt, label)) / 1000
	return strconv.FormatFloat(base+d, 'f', -1, 64)
}

// searchOpts draws the option part shared by SCAN/SEARCH/NEARBY/WITHIN/INTERSECTS.
func searchOpts(rt *rapid.T, spatial bool) []string {
	var a []string
	if rapid.IntRange(0, 4).Draw(rt, "cursor?") == 0 {
		a = append(a, "CURSOR", itoa(rapid.IntRange(0, 2).Draw(rt, "cursor")))
	}
	if rapid.IntRange(0, 2).Draw(rt, "limit?") == 0 {
		a = append(a, "LIMIT", itoa(rapid.IntRange(1, 10).Draw(rt, "limit")))
	}
	if rapid.IntRange(0, 3).Draw(rt, "match?") == 0 {
		a = append(a, "MATCH", pick(rt, "match", "*", "cnrI*", "cnrI[a-b]", "*a", "?nrIc", "nomatch*"))
	}
	if rapid.IntRange(0, 3).Draw(rt, "where?") == 0 {
		a = append(a, "WHERE", pick(rt, "wfield", ns.Fields...), pick(rt, "wmin", "-inf", "0", "3"), pick(rt, "wmax", "+inf", "100", "99999999"))
	}
	if rapid.IntRange(0, 5).Draw(rt, "wherein?") == 0 {
		a = append(a, "WHEREIN", pick(rt, "wifield", ns.Fields...), "2", "3", "12")
	}
	if rapid.IntRange(0, 5).Draw(rt, "nofields?") == 0 {
		a = append(a, "NOFIELDS")
	}
	if !spatial && rapid.IntRange(0, 3).Draw(rt, "order?") == 0 {
		a = append(a, pick(rt, "order", "ASC", "DESC"))
	}
	return a
}

func outputKind(rt *rapid.T, spatial bool) []string {
	if spatial {
		switch rapid.IntRange(0, 6).Draw(rt, "out") {
		case 0:
			return []string{"COUNT"}
		case 1:
			return []string{"IDS"}
		case 2:
			return []string{"OBJECTS"}
		case 3:
			return []string{"POINTS"}
		case 4:
			return []string{"BOUNDS"}
		case 5:
			return []string{"HASHES", itoa(rapid.IntRange(1, 12).Draw(rt, "precision"))}
		}
		return nil
	}
	switch rapid.IntRange(0, 3).Draw(rt, "out") {
	case 0:
		return []string{"COUNT"}
	case 1:
		return []string{"IDS"}
	case 2:
		return []string{"OBJECTS"}
	}
	return nil
}

func area(rt *rapid.T) []string {
	switch rapid.IntRange(0, 7).Draw(rt, "area") {
	case 0, 1:
		la, lo := 33.0, -116.0
		return []string{"BOUNDS", near(rt, "minlat", la), near(rt, "minlon", lo), near(rt, "maxlat", la+1), near(rt, "maxlon", lo+1)}
	case 2:
		return []string{"CIRCLE", near(rt, "clat", 33.6), near(rt, "clon", -115.6), itoa(rapid.IntRange(1, 90000).Draw(rt, "meters"))}
	case 3:
		return []string{"OBJECT", `{"type":"Polygon","coordinates":[[[-116,33],[-115,33],[-115,34],[-116,34],[-116,33]]]}`}
	case 4:
		return []string{"GET", pick(rt, "refkey", ns.Keys...), pick(rt, "refid", ns.IDs...)}
	case 5:
		return []string{"HASH", pick(rt, "hash", "9m", "9mv", "9qj", "s0")}
	case 6:
		return []string{"TILE", "2", "5", "4"}
	default:
		return []string{"QUADKEY", pick(rt, "quadkey", "0230", "02301", "023")}
	}
}

func nearbyArea(rt *rapid.T) []string {
	a := []string{"POINT", near(rt, "nlat", 33.6), near(rt, "nlon", -115.6)}
	if rapid.IntRange(0, 2).Draw(rt, "meters?") != 0 {
		a = append(a, itoa(rapid.IntRange(1, 90000).Draw(rt, "nmeters")))
	}
	return a
}

// searchCmd draws one search command; fence adds the FENCE keyword (the
// connection goes live on a server that accepts it).
func searchCmd(rt *rapid.T, name string, fence bool) []string {
	key := pick(rt, "skey", ns.Keys...)
	switch name {
	case "scan", "search":
		a := []string{strings.ToUpper(name), key}
		a = append(a, searchOpts(rt, false)...)
		return append(a, outputKind(rt, false)...)
	case "nearby":
		a := []string{"NEARBY", key}
		a = append(a, searchOpts(rt, true)...)
		if fence {
			a = append(a, "FENCE")
			if rapid.Bool().Draw(rt, "detect?") {
				a = append(a, "DETECT", pick(rt, "detect", "inside", "enter,exit", "cross"))
			}
		}
		a = append(a, outputKind(rt, true)...)
		return append(a, nearbyArea(rt)...)
	default: // within, intersects
		a := []string{strings.ToUpper(name), key}
		a = append(a, searchOpts(rt, true)...)
		if fence {
			a = append(a, "FENCE")
		}
		a = append(a, outputKind(rt, true)...)
		return append(a, area(rt)...)
	}
}

// hookCmd draws SETHOOK / SETCHAN.
func hookCmd(rt *rapid.T, channel bool) []string {
	var a []string
	if channel {
		a = []string{"SETCHAN", pick(rt, "chan", chanName, "cnrChanB")}
	} else {
		a = []string{"SETHOOK", pick(rt, "hook", hookName, "cnrHookB"), pick(rt, "endpoint", "local://cnrEpA", "local://cnrEpA,local://cnrEpB")}
	}
	if rapid.IntRange(0, 2).Draw(rt, "meta?") == 0 {
		a = append(a, "META", "cnrMk", pick(rt, "metaval", "v1", "v2"))
	}
	if rapid.IntRange(0, 3).Draw(rt, "hookex?") == 0 {
		a = append(a, "EX", "500000")
	}
	sname := pick(rt, "hooksearch", "nearby", "within", "intersects")
	s := searchCmd(rt, sname, true)
	// hooks take no CURSOR/LIMIT-free restriction; keep the grammar as drawn
	return append(a, s...)
}

func luaQuote(s string) string {
	var b strings.Builder
	b.WriteByte('\'')
	for i := 0; i < len(s); i++ {
		ch := s[i]
		if ch >= 'a' && ch <= 'z' || ch >= 'A' && ch <= 'Z' || ch >= '0' && ch <= '9' || ch == '_' || ch == '-' || ch == '.' || ch == ' ' || ch == ':' || ch == '/' || ch == '*' || ch == ',' {
			b.WriteByte(ch)
		} else {
			fmt.Fprintf(&b, "\\%03d", ch)
		}
	}
	b.WriteByte('\'')
	return b.String()
}

// luaCall renders "return tile38.call('cmd','arg',...)".
func luaCall(args []string) string {
	qs := make([]string, len(args))
	for i, a := range args {
		qs[i] = luaQuote(a)
	}
	return "return tile38.call(" + strings.Join(qs, ",") + ")"
}

func sha1hex(s string) string {
	h := sha1.Sum([]byte(s))
	return hex.EncodeToString(h[:])
}

// shapeCtx carries what some grammars need to know about the run.
type shapeCtx struct {
	closedPort int    // a port nobody listens on (bound, not listening)
	otherPort  int    // port of a live leader (only used for refused FOLLOWs)
	pass       string // password of the password-protected servers
}

// keyspacePool draws gen.KeyspaceCmd until every keyspace command name has a
// shape (bounded), returning the first shape drawn per name.
func keyspacePool(rt *rapid.T) map[string][]string {
	want := []string{"set", "fset", "del", "pdel", "drop", "rename", "renamenx", "flushdb", "expire", "persist", "jset", "jdel",
		"jget", "get", "fget", "exists", "fexists", "ttl", "type", "keys", "scan"}
	pool := map[string][]string{}
	for i := 0; i < 400 && len(pool) < len(want); i++ {
		cmd := gen.KeyspaceCmd(rt, ns)
		name := strings.ToLower(cmd[0])
		if _, ok := pool[name]; !ok {
			pool[name] = cmd
		}
	}
	return pool
}

var keyspaceFallback = map[string][]string{
	"set": {"SET", "cnrK1", "cnrIa", "POINT", "1", "2"}, "fset": {"FSET", "cnrK1", "cnrIa", "cnrF", "9"},
	"del": {"DEL", "cnrK1", "cnrIa"}, "pdel": {"PDEL", "cnrK1", "*"}, "drop": {"DROP", "cnrK1"},
	"rename": {"RENAME", "cnrK1", "cnrK2"}, "renamenx": {"RENAMENX", "cnrK1", "cnrK9"}, "flushdb": {"FLUSHDB"},
	"expire": {"EXPIRE", "cnrK1", "cnrIa", "500000"}, "persist": {"PERSIST", "cnrK1", "cnrIb"},
	"jset": {"JSET", "cnrK3", "cnrIb", "a.b", "zz"}, "jdel": {"JDEL", "cnrK3", "cnrIb", "a.b"},
	"jget": {"JGET", "cnrK3", "cnrIb"}, "get": {"GET", "cnrK1", "cnrIa", "WITHFIELDS"}, "fget": {"FGET", "cnrK1", "cnrIa", "cnrF"},
	"exists": {"EXISTS", "cnrK1", "cnrIa"}, "fexists": {"FEXISTS", "cnrK1", "cnrIa", "cnrF"}, "ttl": {"TTL", "cnrK1", "cnrIb"},
	"type": {"TYPE", "cnrK1"}, "keys": {"KEYS", "*"}, "scan": {"SCAN", "cnrK1"},
}

// hitShapes are deterministic shapes that are known to touch the canary data
// on a leader (they make sure every write / read command has at least one
// cell per variant in which the reference run mutates or returns data).
var hitShapes = map[string][]string{
	"set": {"SET", "cnrK1", "cnrIa", "POINT", "1", "2"}, "fset": {"FSET", "cnrK1", "cnrIa", "cnrF", "9"},
	"del": {"DEL", "cnrK1", "cnrIa"}, "pdel": {"PDEL", "cnrK1", "cnrI*"}, "drop": {"DROP", "cnrK2"},
	"rename": {"RENAME", "cnrK1", "cnrK9"}, "renamenx": {"RENAMENX", "cnrK2", "cnrK8"}, "flushdb": {"FLUSHDB"},
	"expire": {"EXPIRE", "cnrK1", "cnrIa", "500000"}, "persist": {"PERSIST", "cnrK1", "cnrIb"},
	"jset": {"JSET", "cnrK3", "cnrIb", "a.b", "zz"}, "jdel": {"JDEL", "cnrK3", "cnrIb", "a.b"},
	"jget": {"JGET", "cnrK3", "cnrIb"}, "get": {"GET", "cnrK1", "cnrIa", "WITHFIELDS"}, "fget": {"FGET", "cnrK1", "cnrIa", "cnrF"},
	"exists": {"EXISTS", "cnrK1", "cnrIa"}, "fexists": {"FEXISTS", "cnrK1", "cnrIa", "cnrF"}, "ttl": {"TTL", "cnrK1", "cnrIb"},
	"type": {"TYPE", "cnrK1"}, "keys": {"KEYS", "*"}, "scan": {"SCAN", "cnrK1"}, "search": {"SEARCH", "cnrK3"},
	"nearby": {"NEARBY", "cnrK1", "POINT", "33.6", "-115.6"}, "within": {"WITHIN", "cnrK1", "BOUNDS", "33", "-116", "34", "-115"},
	"intersects": {"INTERSECTS", "cnrK2", "BOUNDS", "33", "-116", "34", "-115"}, "bounds": {"BOUNDS", "cnrK1"},
	"stats": {"STATS", "cnrK1"}, "hooks": {"HOOKS", "*"}, "chans": {"CHANS", "*"},
	"sethook": {"SETHOOK", "cnrHookB", "local://cnrEpB", "NEARBY", "cnrK1", "FENCE", "POINT", "33", "-115", "1000"},
	"setchan": {"SETCHAN", "cnrChanB", "NEARBY", "cnrK1", "FENCE", "POINT", "33", "-115", "1000"},
	"delhook": {"DELHOOK", hookName}, "pdelhook": {"PDELHOOK", "cnrHook*"}, "delchan": {"DELCHAN", chanName}, "pdelchan": {"PDELCHAN", "*"},
}

// drawShape draws the argument vector (including the command words) of one
// command of the table. mode-specific shapes (AUTH passwords, FOLLOW targets)
// are parameterised through sc.
func drawShape(rt *rapid.T, name string, pool map[string][]string, sc shapeCtx) []string {
	if cmd, ok := pool[name]; ok {
		return cmd
	}
	if cmd, ok := keyspaceFallback[name]; ok {
		return cmd
	}
	up := strings.ToUpper(name)
	words := strings.Split(up, " ")
	switch name {
	case "scan", "search":
		return searchCmd(rt, name, false)
	case "nearby", "within", "intersects":
		return searchCmd(rt, name, rapid.IntRange(0, 5).Draw(rt, "fence?") == 0)
	case "bounds":
		return []string{"BOUNDS", pick(rt, "bkey", "cnrK1", "cnrK2", "cnrK3", "cnrK9")}
	case "stats":
		n := rapid.IntRange(1, 3).Draw(rt, "nstats")
		a := []string{"STATS"}
		for i := 0; i < n; i++ {
			a = append(a, pick(rt, "stkey", "cnrK1", "cnrK2", "cnrK3", "cnrK9"))
		}
		return a
	case "sethook":
		return hookCmd(rt, false)
	case "setchan":
		return hookCmd(rt, true)
	case "delhook":
		return []string{"DELHOOK", pick(rt, "dhook", hookName, "cnrHookB")}
	case "delchan":
		return []string{"DELCHAN", pick(rt, "dchan", chanName, "cnrChanB")}
	case "pdelhook":
		return []string{"PDELHOOK", pick(rt, "phook", "*", "cnrHook*", "nomatch*")}
	case "pdelchan":
		return []string{"PDELCHAN", pick(rt, "pchan", "*", "cnrChan*", "nomatch*")}
	case "hooks", "chans":
		return []string{up, pick(rt, "hpat", "*", "cnr*", "nomatch*")}
	case "eval", "evalro", "evalna":
		scripts := [][]string{
			{"return 1", "0"},
			{"return tile38.call('get','cnrK1','cnrIa')", "0"},
			{"return tile38.call('scan','cnrK3')", "0"},
			{"return tile38.call('set',KEYS[1],ARGV[1],'POINT',33,-115)", "1", "cnrK1", "cnrIa"},
			{"return tile38.call('del','cnrK1','cnrIa')", "0"},
			{"return tile38.call('jdel','cnrK3','cnrIb','a.b')", "0"},
			{"return tile38.call('fset','cnrK1','cnrIa','cnrF',5)", "0"},
			{"tile38.call('drop','cnrK2') return 1", "0"}, // call, not pcall: a refused inner command must surface as an error reply
			{"return tile38.call('keys','*')", "0"},
			{"return {KEYS[1],ARGV[1]}", "1", "cnrK1", "x"},
		}
		s := rapid.SampledFrom(scripts).Draw(rt, "script")
		return append([]string{up}, s...)
	case "evalsha", "evalrosha", "evalnasha":
		sc := pick(rt, "shascript", "return tile38.call('get','cnrK1','cnrIa')", "return tile38.call('del','cnrK1','cnrIa')", "return 2")
		if rapid.IntRange(0, 3).Draw(rt, "unknownsha") == 0 {
			return []string{up, "da39a3ee5e6b4b0d3255bfef95601890afd80709", "0"}
		}
		return []string{up + "@load", sc, "0"} // "@load": the script is loaded first, the sha is sent
	case "script load":
		return []string{"SCRIPT", "LOAD", pick(rt, "lscript", "return 1", "return tile38.call('get','cnrK1','cnrIa')", "return tile38.call('del','cnrK1','cnrIa')")}
	case "script exists":
		return []string{"SCRIPT", "EXISTS", sha1hex("return 1"), "da39a3ee5e6b4b0d3255bfef95601890afd80709"}
	case "script flush":
		return []string{"SCRIPT", "FLUSH"}
	case "script":
		return []string{"SCRIPT", pick(rt, "scriptsub", "KILL", "DEBUG")}
	case "config get":
		return []string{"CONFIG", "GET", pick(rt, "cfgget", "requirepass", "protected-mode", "maxmemory", "keepalive", "leaderauth", "*", "nosuch")}
	case "config set":
		switch rapid.IntRange(0, 7).Draw(rt, "cfgset") {
		case 0:
			return []string{"CONFIG", "SET", "requirepass", altPass}
		case 1:
			return []string{"CONFIG", "SET", "requirepass", ""}
		case 2:
			return []string{"CONFIG", "SET", "requirepass"}
		case 3:
			return []string{"CONFIG", "SET", "protected-mode", pick(rt, "pm", "no", "yes", "maybe")}
		case 4:
			return []string{"CONFIG", "SET", "keepalive", pick(rt, "ka", "300", "200")}
		case 5:
			return []string{"CONFIG", "SET", "maxmemory", pick(rt, "mm", "0", "", "10gb")}
		case 6:
			return []string{"CONFIG", "SET", "autogc", "0"}
		default:
			return []string{"CONFIG", "SET", "nosuch", "1"}
		}
	case "config rewrite":
		return []string{"CONFIG", "REWRITE"}
	case "config":
		return []string{"CONFIG", pick(rt, "cfgsub", "RESETSTAT", "NOSUCH")}
	case "client":
		switch rapid.IntRange(0, 4).Draw(rt, "client") {
		case 0:
			return []string{"CLIENT", "LIST"}
		case 1:
			return []string{"CLIENT", "GETNAME"}
		case 2:
			return []string{"CLIENT", "SETNAME", "cnrClient"}
		case 3:
			return []string{"CLIENT", "KILL", "ID", "99999999"}
		default:
			return []string{"CLIENT"}
		}
	case "subscribe":
		return []string{"SUBSCRIBE", pick(rt, "sub", chanName, "cnrOther")}
	case "psubscribe":
		return []string{"PSUBSCRIBE", pick(rt, "psub", "*", "cnrChan*")}
	case "publish":
		return []string{"PUBLISH", pick(rt, "pubch", chanName, "cnrOther"), "hello"}
	case "monitor", "gc", "aofshrink", "role", "healthz", "shutdown", "quit", "command":
		if name == "command" && rapid.Bool().Draw(rt, "docs") {
			return []string{"COMMAND", "DOCS"}
		}
		return []string{up}
	case "server":
		if rapid.IntRange(0, 3).Draw(rt, "ext") == 0 {
			return []string{"SERVER", "EXT"}
		}
		return []string{"SERVER"}
	case "info":
		return append([]string{"INFO"}, pickOpt(rt, "infosec", "", "server", "replication", "all")...)
	case "aof":
		return []string{"AOF", pick(rt, "aofpos", "0", "0", "99999999999", "-1", "x")}
	case "aofmd5":
		return []string{"AOFMD5", "0", pick(rt, "md5size", "10", "0", "99999999999")}
	case "replconf":
		return []string{"REPLCONF", pick(rt, "replconf", "listening-port", "ip-address", "nosuch"), pick(rt, "replval", "9999", "127.0.0.1")}
	case "test":
		if rapid.Bool().Draw(rt, "testget") {
			return []string{"TEST", "GET", "cnrK1", pick(rt, "tid", ns.IDs...), pick(rt, "trel", "WITHIN", "INTERSECTS"), "BOUNDS", "33", "-116", "34", "-115"}
		}
		return []string{"TEST", "POINT", "33.5", "-115.5", pick(rt, "trel", "WITHIN", "INTERSECTS"), "BOUNDS", "33", "-116", "34", "-115"}
	case "output":
		return append([]string{"OUTPUT"}, pickOpt(rt, "outmode", "", "json", "resp", "xml")...)
	case "ping":
		return append([]string{"PING"}, pickOpt(rt, "pingmsg", "", "hello")...)
	case "echo":
		return append([]string{"ECHO"}, pickOpt(rt, "echomsg", "hello", "")...)
	case "hello":
		return append([]string{"HELLO"}, pickOpt(rt, "hellover", "", "3", "2")...)
	case "timeout":
		switch rapid.IntRange(0, 3).Draw(rt, "timeoutshape") {
		case 0:
			return []string{"TIMEOUT"}
		case 1:
			return []string{"TIMEOUT", "x", "GET", "cnrK1", "cnrIa"}
		case 2:
			return []string{"TIMEOUT", "100", "SET", "cnrK1", "cnrIa", "POINT", "1", "2"}
		default:
			return []string{"TIMEOUT", "100", "GET", "cnrK1", "cnrIa"}
		}
	case "auth":
		pw := sc.pass
		switch rapid.IntRange(0, 7).Draw(rt, "authshape") {
		case 0:
			return []string{"AUTH", pw}
		case 1:
			return []string{"AUTH", " " + pw + "\t"}
		case 2:
			return []string{"AUTH"}
		case 3:
			return []string{"AUTH", ""}
		case 4:
			return []string{"AUTH", pw + "x"}
		case 5:
			return []string{"AUTH", strings.ToUpper(pw)}
		case 6:
			return []string{"AUTH", pw[:len(pw)-1]}
		default:
			return []string{"AUTH", rapid.StringMatching(`[a-zA-Z0-9_-]{1,12}`).Draw(rt, "randpw")}
		}
	case "readonly":
		return append([]string{"READONLY"}, pickOpt(rt, "ro", "", "yes", "no", "maybe")...)
	case "follow", "slaveof":
		switch rapid.IntRange(0, 3).Draw(rt, "followshape") {
		case 0:
			return []string{up}
		case 1:
			return []string{up, "no"}
		case 2:
			return []string{up + "@noone"} // "no one" where it keeps the mode, a refused target otherwise
		default:
			return []string{up, "127.0.0.1", itoa(sc.closedPort)}
		}
	case "massinsert":
		return []string{"MASSINSERT", "2", "2"}
	case "sleep":
		return []string{"SLEEP", "0.01"}
	}
	// a command this check has no grammar for (e.g. added to the server
	// later): generic shapes
	switch rapid.IntRange(0, 2).Draw(rt, "generic") {
	case 0:
		return words
	case 1:
		return append(words, "cnrK1")
	default:
		return append(words, "cnrK1", "cnrIa")
	}
}

func pickOpt(rt *rapid.T, label string, xs ...string) []string {
	v := pick(rt, label, xs...)
	if v == "" {
		return nil
	}
	return []string{v}
}

// hasGrammar says whether drawShape knows the command (for the evidence).
func hasGrammar(name string) bool {
	if _, ok := keyspaceFallback[name]; ok {
		return true
	}
	switch name {
	case "search", "nearby", "within", "intersects", "bounds", "stats", "sethook", "setchan", "delhook", "delchan",
		"pdelhook", "pdelchan", "hooks", "chans", "eval", "evalro", "evalna", "evalsha", "evalrosha", "evalnasha",
		"script load", "script exists", "script flush", "script", "config get", "config set", "config rewrite", "config",
		"client", "subscribe", "psubscribe", "publish", "monitor", "gc", "aofshrink", "role", "healthz", "shutdown",
		"quit", "command", "server", "info", "aof", "aofmd5", "replconf", "test", "output", "ping", "echo", "hello",
		"timeout", "auth", "readonly", "follow", "slaveof", "massinsert", "sleep":
		return true
	}
	return false
}

// enumShapes lists, for the few commands whose argument decides whether a
// gate setting changes (passwords, modes, roles), every shape of the grammar:
// they are all run in every case instead of one drawn shape.
func enumShapes(name string, sc shapeCtx) [][]string {
	up := strings.ToUpper(name)
	pw := sc.pass
	switch name {
	case "auth":
		return [][]string{
			{"AUTH", pw}, {"AUTH"}, {"AUTH", ""}, {"AUTH", pw + "x"}, {"AUTH", "x" + pw},
			{"AUTH", strings.ToUpper(pw)}, {"AUTH", strings.ToLower(pw)}, {"AUTH", pw[:len(pw)-1]}, {"AUTH", pw[1:]}, {"AUTH", pw, pw}, {"AUTH", "*"},
			{"AUTH", pw + " " + pw},
			// near misses by padding: none of them is the password
			{"AUTH", pw + " "}, {"AUTH", " " + pw}, {"AUTH", " " + pw + "\t"}, {"AUTH", "\t" + pw + "\r\n"}, {"AUTH", pw + "\r\n"}, {"AUTH", pw + "\n"},
			{"AUTH", pw + "\x00"}, {"AUTH", "\x00" + pw}, {"AUTH", pw + "\u00a0"}, {"AUTH", "\v" + pw + "\f"},
		}
	case "config set":
		return [][]string{
			{"CONFIG", "SET", "requirepass", altPass}, {"CONFIG", "SET", "requirepass", ""}, {"CONFIG", "SET", "requirepass"},
			{"CONFIG", "SET", "protected-mode", "no"}, {"CONFIG", "SET", "protected-mode", "yes"}, {"CONFIG", "SET", "protected-mode", "maybe"},
			{"CONFIG", "SET", "keepalive", "200"}, {"CONFIG", "SET", "maxmemory", "10gb"}, {"CONFIG", "SET", "maxmemory", ""},
			{"CONFIG", "SET", "autogc", "0"}, {"CONFIG", "SET", "nosuch", "1"}, {"CONFIG", "SET"},
		}
	case "readonly":
		return [][]string{{"READONLY"}, {"READONLY", "yes"}, {"READONLY", "no"}, {"READONLY", "maybe"}}
	case "follow", "slaveof":
		return [][]string{{up}, {up, "no"}, {up + "@noone"}, {up, "127.0.0.1", itoa(sc.closedPort)}, {up, "127.0.0.1", "notaport"}}
	case "output":
		return [][]string{{"OUTPUT"}, {"OUTPUT", "json"}, {"OUTPUT", "resp"}, {"OUTPUT", "xml"}}
	}
	return nil
}

package c08

import (
	"fmt"
	"strings"
	"testing"
	"time"

	"github.com/tidwall/tile38/verif/harness/ev"
	"github.com/tidwall/tile38/verif/harness/t38"
	"pgregory.net/rapid"
)

// ---------------------------------------------------- background flusher

// bgCase: one connection's write segment is parked right after its commands
// were applied (hook point pre-write: log bytes buffered, server lock free);
// the once-a-second background flusher is then parked at the moment it is
// about to write the buffer to the file. Order decides who is released first.
type bgCase struct {
	Kinds       []int `json:"kinds"`
	WriterFirst bool  `json:"writer_first"`
}

func (s *sched) setWantBG(on bool) {
	s.mu.Lock()
	s.wantBG = on
	s.mu.Unlock()
}

// runBGFlush returns (nontrivial, inconclusive reason).
func runBGFlush(t ev.Failer, c *ev.Collector, bc bgCase) (bool, string) {
	s := sharedSched(t)
	s.setPassthrough(true)
	s.setWantBG(false)
	drain := func(d time.Duration) {
		for {
			select {
			case e := <-s.events:
				if e.arr != nil {
					close(e.arr.release)
				}
				continue
			case <-time.After(d):
			}
			return
		}
	}
	drain(0)
	conn := s.srv.MustDial()
	stop := make(chan struct{})
	var wPark, bgPark *arrival
	defer func() {
		s.setPassthrough(true)
		s.setWantBG(false)
		close(stop)
		if wPark != nil {
			close(wPark.release)
		}
		if bgPark != nil {
			close(bgPark.release)
		}
		conn.Close()
		drain(30 * time.Millisecond)
	}()
	go func() {
		for {
			_, err := conn.RecvTimeout(5 * time.Minute)
			select {
			case <-stop:
				return
			default:
			}
			if err != nil {
				s.events <- event{reply: 1, eof: true}
				return
			}
			s.events <- event{reply: 1}
		}
	}()
	var raw []byte
	var mks []string
	var names []string
	for _, k := range bc.Kinds {
		mk := marker()
		cmd := writeCmd(k, mk)
		mks = append(mks, mk)
		names = append(names, cmd[0])
		raw = append(raw, t38.EncodeCmd(cmd...)...)
	}
	pending := len(bc.Kinds)
	s.setWantBG(true)
	s.setPassthrough(false)
	if err := conn.SendRaw(raw); err != nil {
		c.Fail(t, "c08-harness", err.Error(), bc)
	}
	var trace []string
	checkFile := func(at string) {
		for _, mk := range mks {
			if !tailHas(s.srv.AOFPath(), mk, 1<<18) && !fileHas(s.srv.AOFPath(), mk) {
				c.Fail(t, "ack-before-flush", fmt.Sprintf("background flusher parked mid-write, schedule %v: at %s the connection's acknowledged/about-to-be-acknowledged %s (marker %s) is not in appendonly.aof", trace, at, strings.Join(names, "+"), mk), bc)
			}
		}
	}
	// next waits for one event; ok=false on timeout.
	next := func(d time.Duration) (event, bool) {
		select {
		case e := <-s.events:
			return e, true
		case <-time.After(d):
			return event{}, false
		}
	}
	// phase A: the writer reaches pre-write
	for wPark == nil {
		e, ok := next(waitBudget)
		if !ok {
			return false, "the connection did not reach the pre-write point"
		}
		switch {
		case e.arr == nil:
			return false, "reply before the pre-write point"
		case e.arr.name == "bg-aof-write":
			// a tick before the writer got there (buffer non-empty for another reason): let it pass
			close(e.arr.release)
		case e.arr.name == "pre-write":
			wPark = e.arr
			trace = append(trace, "w@pre-write")
		default:
			close(e.arr.release)
		}
	}
	// phase B: the background flusher arrives with the writer's bytes in the buffer
	for bgPark == nil {
		e, ok := next(3 * time.Second)
		if !ok {
			return false, "the background flusher did not reach its file write within 3 s"
		}
		if e.arr != nil && e.arr.name == "bg-aof-write" {
			bgPark = e.arr
			trace = append(trace, "bg@aof-write")
		} else if e.arr != nil {
			close(e.arr.release)
		}
	}
	releaseBG := func() {
		if bgPark != nil {
			trace = append(trace, "release bg")
			close(bgPark.release)
			bgPark = nil
		}
	}
	if !bc.WriterFirst {
		releaseBG()
	}
	trace = append(trace, "release w")
	close(wPark.release)
	wPark = nil
	for pending > 0 {
		grace := waitBudget
		if bgPark != nil {
			grace = 400 * time.Millisecond
		}
		e, ok := next(grace)
		if !ok {
			if bgPark != nil {
				// the writer needs the lock the flusher holds: let the flusher finish
				trace = append(trace, "w blocked")
				releaseBG()
				continue
			}
			return false, "replies did not arrive"
		}
		switch {
		case e.arr == nil:
			if e.eof {
				return false, "connection closed"
			}
			pending--
			if pending == 0 {
				trace = append(trace, "replies read")
				checkFile("the moment the replies had been read")
			}
		case e.arr.name == "bg-aof-write":
			close(e.arr.release) // a later tick
		default:
			trace = append(trace, "w@"+e.arr.name)
			if e.arr.name == "before-conn-write" {
				checkFile("before-conn-write")
			}
			close(e.arr.release)
		}
	}
	releaseBG()
	return bc.WriterFirst, ""
}

func TestC08_BackgroundFlush(t *testing.T) {
	c := ev.New("C08", "bgflush", "exploration")
	t.Cleanup(c.Flush)
	c.Rule("harness-owned schedule of one connection against the background flusher: a segment of 1-3 writes is parked after its commands were applied (pre-write point: bytes buffered, server lock free); the once-a-second flusher is parked where it is about to write the buffer to the file; then either the flusher or the connection is released first (a connection that cannot proceed because the flusher holds the server lock is detected by a 400 ms grace and the flusher is released). At the connection's before-conn-write point and when its replies have been read the file must hold its markers. A flusher that does not tick within 3 s makes the case inconclusive. Non-trivial: the connection is released while the flusher is parked mid-write; distinct by (write kinds, order).")
	ev.Rapid("bgflush", ev.Pick(8, 60))
	rapid.Check(t, func(rt *rapid.T) {
		bc := bgCase{
			Kinds:       rapid.SliceOfN(rapid.IntRange(0, 7), 1, 3).Draw(rt, "kinds"),
			WriterFirst: rapid.IntRange(0, 3).Draw(rt, "order") > 0,
		}
		c.Case()
		nt, inc := runBGFlush(rt, c, bc)
		if inc != "" {
			c.Inconclusive("%s", inc)
			return
		}
		if nt {
			c.NonTrivial(fmt.Sprint(bc.Kinds, bc.WriterFirst))
			c.Label("connection-released-while-flusher-mid-write")
			c.Sample(bc)
		}
	})
}

// -------------------------------------------------------------- promotion

// runPromotion: a follower that has just applied a replicated command is
// promoted (FOLLOW no one) and acknowledges a client write: that write must be
// in ITS file when the acknowledgement is read.
func runPromotion(t ev.Failer, c *ev.Collector, rounds int) (done int) {
	L, err := t38.Start(t38.Opts{})
	if err != nil {
		t.Fatalf("start leader: %v", err)
	}
	defer L.StopAsync()
	F, err := t38.Start(t38.Opts{})
	if err != nil {
		t.Fatalf("start follower: %v", err)
	}
	defer F.StopAsync()
	cl, cf := L.MustDial(), F.MustDial()
	defer cl.Close()
	defer cf.Close()
	host, port, _ := strings.Cut(L.Addr, ":")
	for r := 0; r < rounds; r++ {
		if v := cf.MustDo("FOLLOW", host, port); v.IsErr() {
			t.Fatalf("FOLLOW: %s", v)
		}
		// a replicated command reaches the follower ...
		lm := marker()
		nrep := 1 + r%3
		for i := 0; i < nrep; i++ {
			if v := cl.MustDo("SET", "lk", fmt.Sprintf("%s-%d", lm, i), "POINT", "1", "2"); v.IsErr() {
				t.Fatalf("leader SET: %s", v)
			}
		}
		deadline := time.Now().Add(30 * time.Second)
		for {
			v, err := cf.Do("GET", "lk", fmt.Sprintf("%s-%d", lm, nrep-1))
			if err == nil && !v.IsErr() && !v.Null {
				break
			}
			if time.Now().After(deadline) {
				c.Inconclusive("the follower did not receive the leader's write within 30 s")
				return done
			}
			time.Sleep(time.Millisecond)
		}
		// ... which promotes it and writes
		if v := cf.MustDo("FOLLOW", "no", "one"); v.IsErr() {
			t.Fatalf("FOLLOW no one: %s", v)
		}
		off := fileSize(F.AOFPath())
		mk := marker()
		cmd := writeCmd(r, mk)
		if cmd[0] == "EVAL" || cmd[0] == "EVALNA" {
			cmd = writeCmd(0, mk)
		}
		v, err := cf.Do(cmd...)
		if err != nil || v.IsErr() {
			t.Fatalf("%v: %v %v", cmd, v, err)
		}
		if !fileHasSince(F.AOFPath(), off, mk) {
			c.Fail(t, "ack-before-flush", fmt.Sprintf("round %d: a follower applied %d replicated command(s), was promoted with FOLLOW no one and acknowledged %s: the command is not in its appendonly.aof at the moment the reply was read", r, nrep, t38.CmdString(cmd)), map[string]any{"round": r})
		}
		done++
	}
	return done
}

func TestC08_Promotion(t *testing.T) {
	if ev.Shard() > 1 {
		t.Skip("runs on shards 0 and 1")
	}
	c := ev.New("C08", "promotion", "exploration")
	t.Cleanup(c.Flush)
	c.Rule("a follower applies 1-3 commands replicated from its leader (the follower's log buffer is then non-empty and owned by the replication goroutine), is promoted with FOLLOW no one and acknowledges a client write of one of 6 kinds; the write's marker must be in the promoted server's file when the reply has been read; then it follows again. Non-trivial: every round; distinct by (round, kind).")
	n := ev.Pick(8, 60)
	done := runPromotion(t, c, n)
	for i := 0; i < done; i++ {
		c.Case()
		c.NonTrivial(fmt.Sprint("round", i))
	}
	c.Sample(map[string]any{"rounds": done})
}

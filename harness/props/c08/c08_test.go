// C08: a write is handed to the log file before its acknowledgement is sent.
//
// Two oracles: (1) black box — right after READING an acknowledgement the
// append-only file on disk already contains the command (the file only grows,
// so "missing after the ack arrived" implies "missing when it was sent");
// (2) harness-owned schedules — connection goroutines park at the verif hook
// points around the pre-write step (pre-write, dirty-seen, flushed,
// before-conn-write); the test decides who runs next, and at every
// before-conn-write point checks that the file holds every write whose reply
// is about to be sent. The 2-connection x 1-write schedule space is
// enumerated exhaustively, larger configurations are sampled.
package c08

import (
	"bytes"
	"encoding/json"
	"fmt"
	"io"
	"os"
	"runtime"
	"strconv"
	"strings"
	"sync"
	"testing"
	"time"

	"github.com/tidwall/tile38/internal/verifhook"
	"github.com/tidwall/tile38/verif/harness/ev"
	"github.com/tidwall/tile38/verif/harness/t38"
	"pgregory.net/rapid"
)

func TestMain(m *testing.M) {
	if !verifhook.Enabled {
		fmt.Fprintln(os.Stderr, "c08 needs -tags verif")
		os.Exit(2)
	}
	os.Exit(m.Run())
}

// ---------------------------------------------------------------- black box

var markerSeq int

func marker() string { markerSeq++; return fmt.Sprintf("mk%dx", markerSeq) }

// writeCmd builds a state-changing command carrying a unique marker.
func writeCmd(kind int, mk string) []string {
	switch kind % 8 {
	case 0:
		return []string{"SET", "k", mk, "POINT", "1", "2"}
	case 1:
		return []string{"SET", "k", mk, "FIELD", "f", "1", "STRING", "v"}
	case 2:
		return []string{"JSET", "j", mk, "a", "1"}
	case 3:
		return []string{"SETCHAN", mk, "NEARBY", "fencekey", "FENCE", "POINT", "1", "2", "100"}
	case 4:
		return []string{"EVAL", "return tile38.call('set','k',ARGV[1],'point',1,2)", "0", mk}
	case 5:
		return []string{"EVALNA", "return tile38.call('set','k',ARGV[1],'point',1,2)", "0", mk}
	case 6:
		return []string{"SET", "k", mk, "EX", "100000", "BOUNDS", "1", "2", "3", "4"}
	default:
		return []string{"SETHOOK", mk, "http://127.0.0.1:1/x", "NEARBY", "fencekey", "FENCE", "POINT", "1", "2", "100"}
	}
}

// bigWriteCmd is a write whose log record is 12-40 KB (past the 10 KiB
// threshold at which buffered log data is flushed early on some paths).
func bigWriteCmd(i int, mk string) []string {
	return []string{"SET", "kbig", mk, "STRING", strings.Repeat("v", 12000+(i%8)*4000)}
}

var detachCmds = [][]string{
	{"SUBSCRIBE", "ch"},
	{"PSUBSCRIBE", "ch*"},
	{"NEARBY", "livekey", "FENCE", "POINT", "1", "2", "100"},
	{"WITHIN", "livekey", "FENCE", "BOUNDS", "0", "0", "5", "5"},
	{"MONITOR"},
	{"AOF", "0"},
}

func shortCmd(cmd []string) string {
	s := t38.CmdString(cmd)
	if len(s) > 300 {
		s = s[:150] + fmt.Sprintf(" ...(%d bytes)... ", len(s)-300) + s[len(s)-150:]
	}
	return s
}

func fileHas(path, mk string) bool {
	b, err := os.ReadFile(path)
	if err != nil {
		return false
	}
	return bytes.Contains(b, []byte(mk))
}

// fileHasSince looks for mk in the part of the file after offset off (the
// file's size before the segment was sent); when it is not there (or the file
// has meanwhile been replaced by a smaller one) the whole file is read before
// the answer is "no". Keeps the cost of a check independent of the log's size.
func fileHasSince(path string, off int64, mk string) bool {
	if f, err := os.Open(path); err == nil {
		if _, err := f.Seek(off, io.SeekStart); err == nil {
			b, _ := io.ReadAll(f)
			f.Close()
			if bytes.Contains(b, []byte(mk)) {
				return true
			}
		} else {
			f.Close()
		}
	}
	return fileHas(path, mk)
}

func fileSize(path string) int64 {
	fi, err := os.Stat(path)
	if err != nil {
		return 0
	}
	// leave room for a marker straddling the boundary
	if fi.Size() > 256 {
		return fi.Size() - 256
	}
	return 0
}

type bbCase struct {
	Kinds  []int `json:"kinds"`          // write kinds of the pipelined segment (-1: GET of a large value, reply 20-70 KB; 8..15: a write whose log record is 12-40 KB)
	Shrink bool  `json:"shrink"`         // AOFSHRINK is run to completion right before the segment is sent
	Detach int   `json:"detach"`         // -1: none, else index into detachCmds appended to the segment
	Split  bool  `json:"split"`          // send each command as its own segment
	Sleep  bool  `json:"sleep"`          // the segment ends with SLEEP 0.05 (holds the shared lock: keeps the batch open)
	Huge   int   `json:"huge,omitempty"` // 1: one more write whose log record is 5-9 MiB; 2: an EVAL that makes 90000 writes (about 5 MiB of log); the marker is at the END of the record
	HugeAt int   `json:"huge_at,omitempty"`
}

// hugeWriteCmd returns a write with megabytes of log and the text that marks
// the END of its log record (a flush that writes only part of the pending
// bytes leaves the head of the record in the file, not its end).
func hugeWriteCmd(kind int, mk string) (cmd []string, tail string) {
	if kind == 2 {
		return []string{"EVAL", "for i = 1, 90000 do tile38.call('set', 'kloop', 'i' .. i, 'point', (i % 1000) / 10 - 50, i / 1000) end return tile38.call('set', 'kloop', ARGV[1], 'point', 1, 2)", "0", mk}, mk
	}
	n := 5<<20 + (markerSeq%5)<<20
	return []string{"SET", "khuge", "h", "STRING", strings.Repeat("H", n) + mk}, mk
}

var bigOnce sync.Once
var bbCases int

func runBlackBox(t ev.Failer, c *ev.Collector, srv *t38.Srv, bc bbCase) {
	conn := srv.MustDial()
	defer conn.Close()
	if bc.Huge > 0 {
		// hooks and channels of earlier cases are looked at for every single write: with thousands of
		// them the 90000-write script alone takes ten seconds
		conn.MustDo("PDELHOOK", "mk*")
		conn.MustDo("PDELCHAN", "mk*")
		// do not let the megabytes stay: every later AOFSHRINK case would rewrite them
		defer func() {
			cl := srv.MustDial()
			cl.MustDo("DROP", "kloop")
			cl.MustDo("DROP", "khuge")
			cl.Close()
		}()
	}
	bigOnce.Do(func() {
		conn.MustDo("SET", "big", "blob", "STRING", strings.Repeat("B", 70000))
		conn.MustDo("SET", "big", "blob2", "STRING", strings.Repeat("C", 20000))
	})
	var mks []string // marker per command ("" for reads)
	var seg []byte
	var cmds [][]string
	for i, k := range bc.Kinds {
		var cmd []string
		mk := ""
		if k < 0 {
			cmd = []string{"GET", "big", []string{"blob", "blob2"}[i%2]}
		} else if k >= 8 {
			mk = marker()
			cmd = bigWriteCmd(k, mk)
		} else {
			mk = marker()
			cmd = writeCmd(k, mk)
		}
		mks = append(mks, mk)
		cmds = append(cmds, cmd)
		seg = append(seg, t38.EncodeCmd(cmd...)...)
		if bc.Huge > 0 && i == bc.HugeAt%len(bc.Kinds) {
			hcmd, tail := hugeWriteCmd(bc.Huge, marker())
			mks = append(mks, tail)
			cmds = append(cmds, hcmd)
			seg = append(seg, t38.EncodeCmd(hcmd...)...)
		}
	}
	if bc.Sleep {
		seg = append(seg, t38.EncodeCmd("SLEEP", "0.05")...)
	}
	if bc.Shrink {
		// rewrite the log and wait for the swap: afterwards the file is smaller
		// than any position remembered from before
		// overwrites first, so that the rewritten file really is smaller
		var junk []byte
		for i := 0; i < 150; i++ {
			junk = append(junk, t38.EncodeCmd("SET", "junk", "same", "FIELD", "n", fmt.Sprint(i+1), "POINT", "5", "5")...)
		}
		if err := conn.SendRaw(junk); err != nil {
			c.Fail(t, "c08-harness", err.Error(), bc)
		}
		for i := 0; i < 150; i++ {
			if _, err := conn.Recv(); err != nil {
				c.Fail(t, "c08-harness", err.Error(), bc)
			}
		}
		if v, err := conn.Do("AOFSHRINK"); err != nil || v.IsErr() {
			c.Fail(t, "c08-harness", fmt.Sprintf("AOFSHRINK: %v %v", v, err), bc)
		}
		time.Sleep(3 * time.Millisecond)
		for i := 0; i < 5000; i++ {
			if _, err := os.Stat(srv.AOFPath() + "-shrink"); os.IsNotExist(err) {
				break
			}
			time.Sleep(time.Millisecond)
		}
	}
	if bc.Detach >= 0 {
		seg = append(seg, t38.EncodeCmd(detachCmds[bc.Detach]...)...)
	}
	off0 := fileSize(srv.AOFPath())
	if bc.Split {
		for i, cmd := range cmds {
			v, err := conn.Do(cmd...)
			if err != nil || v.IsErr() {
				c.Fail(t, "c08-harness", fmt.Sprintf("command %v failed: %v %v", cmd, v, err), bc)
			}
			if mks[i] != "" && !fileHasSince(srv.AOFPath(), off0, mks[i]) {
				c.Fail(t, "ack-before-flush", fmt.Sprintf("acknowledged %s is not in appendonly.aof at the time the reply was read", shortCmd(cmd)), bc)
			}
		}
		return
	}
	// sent from a goroutine: with megabytes in the segment the server's replies fill the socket while
	// the client is still writing (a client that does not read meanwhile deadlocks with any server)
	sendErr := make(chan error, 1)
	go func() { sendErr <- conn.SendRaw(seg) }()
	defer func() { <-sendErr }()
	for i := range cmds {
		v, err := conn.Recv()
		if err != nil || v.IsErr() {
			c.Fail(t, "c08-harness", fmt.Sprintf("command %v failed: %v %v", cmds[i], v, err), bc)
		}
		// the acknowledgement of command i has arrived: it must be on disk NOW
		if mks[i] != "" && !fileHasSince(srv.AOFPath(), off0, mks[i]) {
			what := "pipelined segment"
			if bc.Detach >= 0 {
				what = "segment ending in " + detachCmds[bc.Detach][0] + " (connection detaches)"
			}
			c.Fail(t, "ack-before-flush", fmt.Sprintf("%s: acknowledged %s is not in appendonly.aof at the moment its reply was read", what, shortCmd(cmds[i])), bc)
		}
	}
}

func TestC08_BlackBox(t *testing.T) {
	c := ev.New("C08", "blackbox", "exploration")
	t.Cleanup(c.Flush)
	c.Rule("one connection sends a segment of 1-12 pipelined commands: state-changing commands of 8 kinds (SET variants, JSET, SETCHAN, SETHOOK, EVAL/EVALNA scripts that write) mixed with GETs whose replies are 20-70 KB (so the connection's output buffer grows past any internal threshold), optionally ending with SLEEP 0.05 (holds the shared lock, keeps the batch open and the background flusher out) and/or a command that detaches the connection (SUBSCRIBE, PSUBSCRIBE, live NEARBY/WITHIN FENCE, MONITOR, AOF); the moment each acknowledgement has been read the file on disk must contain that command's unique marker. Non-trivial: segment with >= 2 writes, a large read, or a detaching command; distinct by (kinds, detach, split, sleep).")
	srv, err := t38.Start(t38.Opts{DevMode: true})
	if err != nil {
		t.Fatal(err)
	}
	defer srv.StopAsync()
	ev.Rapid("blackbox", ev.Pick(1000, 8000))
	rapid.Check(t, func(rt *rapid.T) {
		bc := bbCase{
			Kinds:  rapid.SliceOfN(rapid.IntRange(-2, 9), 1, 12).Draw(rt, "kinds"),
			Shrink: rapid.IntRange(0, 11).Draw(rt, "shrink") == 0,
			Detach: rapid.IntRange(-4, len(detachCmds)-1).Draw(rt, "detach"),
			Split:  rapid.IntRange(0, 5).Draw(rt, "split") == 0,
			Sleep:  rapid.IntRange(0, 3).Draw(rt, "sleep") == 0,
			Huge:   map[int]int{37: 1, 61: 2}[rapid.IntRange(0, 99).Draw(rt, "huge")], // interior values: rapid favours the ends of a range
			HugeAt: rapid.IntRange(0, 11).Draw(rt, "hugeat"),
		}
		if bc.Huge < 0 || os.Getenv("VERIF_C08_NOHUGE") != "" {
			bc.Huge = 0
		}
		for i, k := range bc.Kinds {
			if k < -1 {
				bc.Kinds[i] = -1
			}
		}
		if bc.Detach < -1 {
			bc.Detach = -1
		}
		if bc.Split {
			bc.Detach = -1
			bc.Sleep = false
		}
		c.Case()
		if bbCases++; bbCases%300 == 0 {
			// keep the dataset (and with it the cost of AOFSHRINK) bounded over a long run
			cl := srv.MustDial()
			for _, k := range []string{"k", "kbig", "junk"} {
				cl.MustDo("DROP", k)
			}
			cl.Close()
		}
		t0case := time.Now()
		runBlackBox(rt, c, srv, bc)
		if d := time.Since(t0case); d > time.Second && os.Getenv("VERIF_C08_SLOW") != "" {
			fmt.Fprintf(os.Stderr, "SLOW %v %+v\n", d, bc)
		}
		if bc.Detach >= 0 {
			c.Label("detach:" + detachCmds[bc.Detach][0])
		}
		if bc.Huge > 0 {
			c.Label([]string{"", "huge-write-5-9MiB", "script-with-90000-writes"}[bc.Huge])
		}
		big := false
		writes := 0
		for _, k := range bc.Kinds {
			if k < 0 {
				big = true
			} else {
				writes++
				if k >= 8 {
					c.Label("large-write-in-segment")
				}
			}
		}
		if bc.Shrink {
			c.Label("segment-right-after-aofshrink")
		}
		if big {
			c.Label("large-reply-in-segment")
		}
		if bc.Sleep {
			c.Label("segment-held-open-by-sleep")
		}
		if writes >= 2 || big || bc.Detach >= 0 {
			c.NonTrivial(fmt.Sprint(bc.Kinds, bc.Detach, bc.Split, bc.Sleep, bc.Shrink))
			c.Sample(bc)
		}
	})
}

// ---------------------------------------------------------------- scheduler

type arrival struct {
	name    string
	goid    int64
	release chan struct{}
}

type event struct {
	arr   *arrival // hook arrival, or
	reply int      // index+1 of the connection a reply (or EOF: closed=true) came from
	eof   bool
}

// sched owns the schedule of one server's connection goroutines.
type sched struct {
	srv    *t38.Srv
	events chan event
	off    bool
	wantBG bool // park log writes made outside a connection's pre-write step too (background flusher)
	mu     sync.Mutex
}

func goid() int64 {
	var buf [64]byte
	n := runtime.Stack(buf[:], false)
	// "goroutine 123 [running]:"
	f := strings.Fields(string(buf[:n]))
	if len(f) < 2 {
		return -1
	}
	id, _ := strconv.ParseInt(f[1], 10, 64)
	return id
}

func inPrewrite() bool {
	buf := make([]byte, 4096)
	n := runtime.Stack(buf, false)
	return strings.Contains(string(buf[:n]), "prewriteAOF")
}

func newSched(t ev.Failer) *sched {
	dir := t38.NewDir("c08")
	s := &sched{events: make(chan event, 256), off: true} // pass-through until set-up is done
	verifhook.Register(dir, &verifhook.Handler{Point: func(name string, client int) {
		s.mu.Lock()
		off := s.off
		s.mu.Unlock()
		if off {
			return
		}
		if name == "aof-write" && !inPrewrite() {
			// background flusher, shrink, shutdown: not a connection's pre-write step
			s.mu.Lock()
			want := s.wantBG
			s.mu.Unlock()
			if !want {
				return
			}
			name = "bg-aof-write"
		}
		a := &arrival{name: name, goid: goid(), release: make(chan struct{})}
		s.events <- event{arr: a}
		<-a.release
	}})
	srv, err := t38.Start(t38.Opts{Dir: dir})
	if err != nil {
		t.Fatalf("start: %v", err)
	}
	s.srv = srv
	return s
}

// setPassthrough lets set-up commands run without parking.
func (s *sched) setPassthrough(on bool) {
	s.mu.Lock()
	s.off = on
	s.mu.Unlock()
}

var theSched *sched

// sharedSched returns the one scheduler/server of this process (every server
// start leaks descriptors inside tile38, so schedules share a server; markers
// are unique and connections are per schedule).
func sharedSched(t ev.Failer) *sched {
	if theSched == nil {
		theSched = newSched(t)
	}
	return theSched
}

// connState is one scripted connection.
type connState struct {
	idx      int
	conn     *t38.Conn
	goid     int64
	segs     [][][]string // segments, each a list of commands
	next     int          // next segment to send
	parked   *arrival     // where its goroutine is parked (nil: running, blocked or idle)
	blocked  bool         // an action was taken but the goroutine waits for the server lock
	inflight []string     // markers of the segment being processed
	pending  int          // replies still expected for the in-flight segment
	closed   bool
}

// Schedule-space description of a case.
type schedCase struct {
	Conns   [][][]int `json:"conns"`   // per connection: segments of write kinds (negative = read GET)
	Choices []int     `json:"choices"` // scheduler choices (index into the enabled-action list, modulo its length)
	Detach  []int     `json:"detach"`  // per connection: detach command index appended to its LAST segment, or -1
}

const waitBudget = 20 * time.Second

var errBudget = fmt.Errorf("scheduler wait budget exceeded")

// runSchedule executes one schedule. It returns the trace, the number of
// enabled actions at each choice point (for exhaustive enumeration), and
// whether the schedule is "interesting".
func runSchedule(t ev.Failer, c *ev.Collector, sc schedCase) (trace []string, fanout []int, interesting bool, err error) {
	s := sharedSched(t)
	s.setPassthrough(true)
	setup := s.srv.MustDial()
	setup.MustDo("SET", "k", "seed", "POINT", "1", "2")
	setup.Close()
	// drain anything stale
	for {
		select {
		case e := <-s.events:
			if e.arr != nil {
				close(e.arr.release)
			}
			continue
		default:
		}
		break
	}
	var conns []*connState
	stopReaders := make(chan struct{})
	defer func() {
		// never leave a goroutine parked behind (a failed case ends early)
		s.setPassthrough(true)
		close(stopReaders)
		for _, cs := range conns {
			if cs.parked != nil {
				// may be parked inside flushAOF with the server lock held
				close(cs.parked.release)
				cs.parked = nil
			}
		}
		for _, cs := range conns {
			cs.conn.Close()
		}
		for {
			select {
			case e := <-s.events:
				if e.arr != nil {
					close(e.arr.release)
				}
				continue
			case <-time.After(30 * time.Millisecond):
			}
			break
		}
	}()
	for ci, segs := range sc.Conns {
		cs := &connState{idx: ci, conn: s.srv.MustDial()}
		for si, seg := range segs {
			var cmds [][]string
			for _, k := range seg {
				if k < 0 {
					cmds = append(cmds, []string{"GET", "k", "seed"})
				} else {
					cmds = append(cmds, writeCmd(k, marker()))
				}
			}
			if si == len(segs)-1 && ci < len(sc.Detach) && sc.Detach[ci] >= 0 {
				cmds = append(cmds, detachCmds[sc.Detach[ci]])
			}
			cs.segs = append(cs.segs, cmds)
		}
		conns = append(conns, cs)
		go func(cs *connState) {
			for {
				_, err := cs.conn.RecvTimeout(5 * time.Minute)
				select {
				case <-stopReaders:
					return
				default:
				}
				if err != nil {
					s.events <- event{reply: cs.idx + 1, eof: true}
					return
				}
				s.events <- event{reply: cs.idx + 1}
			}
		}(cs)
	}
	s.setPassthrough(false)
	byGoid := map[int64]*connState{}
	lockHolder := func() *connState {
		for _, cs := range conns {
			if cs.parked != nil && cs.parked.name == "aof-write" {
				return cs
			}
		}
		return nil
	}
	var learning *connState
	// handle processes one event.
	handle := func(e event) {
		if e.arr != nil {
			cs := byGoid[e.arr.goid]
			if cs == nil {
				cs = learning
				if cs == nil {
					// unknown goroutine (not one of ours): let it go
					close(e.arr.release)
					return
				}
				cs.goid = e.arr.goid
				byGoid[cs.goid] = cs
			}
			cs.parked = e.arr
			cs.blocked = false
			trace = append(trace, fmt.Sprintf("c%d@%s", cs.idx, e.arr.name))
			if e.arr.name == "before-conn-write" {
				// the replies of this connection's in-flight segment are about to be sent
				for _, mk := range cs.inflight {
					if !tailHas(s.srv.AOFPath(), mk, 1<<18) && !fileHas(s.srv.AOFPath(), mk) {
						c.Fail(t, "ack-before-flush", fmt.Sprintf("schedule %v: connection %d is about to send the reply of a write (marker %s) whose bytes are not in appendonly.aof", trace, cs.idx, mk), sc)
					}
				}
				if lockHolder() != nil && lockHolder() != cs {
					interesting = true
				}
			}
			return
		}
		cs := conns[e.reply-1]
		if e.eof {
			cs.closed = true
			cs.pending = 0
		} else if cs.pending > 0 {
			cs.pending--
		}
		if cs.pending == 0 && cs.parked == nil {
			cs.blocked = false
		}
	}
	settled := func(cs *connState) bool {
		return cs.parked != nil || (cs.pending == 0 && !cs.blocked) || cs.closed
	}
	// waitFor waits until cs has settled; while another connection holds the
	// server lock parked, a goroutine that needs the lock cannot settle: it is
	// marked blocked after a grace period.
	waitFor := func(cs *connState, grace time.Duration) error {
		deadline := time.After(waitBudget)
		var graceC <-chan time.Time
		if grace > 0 {
			graceC = time.After(grace)
		}
		for !settled(cs) {
			select {
			case e := <-s.events:
				handle(e)
			case <-graceC:
				if lockHolder() != nil {
					cs.blocked = true
					trace = append(trace, fmt.Sprintf("c%d blocked on the lock", cs.idx))
					return nil
				}
				graceC = nil
			case <-deadline:
				return errBudget
			}
		}
		return nil
	}
	// learn which server goroutine serves which connection (one PING each)
	for _, cs := range conns {
		learning = cs
		cs.pending = 1
		if err := cs.conn.Send("PING"); err != nil {
			return trace, fanout, interesting, err
		}
		for cs.pending > 0 {
			if cs.parked != nil {
				p := cs.parked
				cs.parked = nil
				close(p.release)
			}
			select {
			case e := <-s.events:
				handle(e)
			case <-time.After(waitBudget):
				return trace, fanout, interesting, errBudget
			}
		}
		if cs.goid == 0 {
			return trace, fanout, interesting, fmt.Errorf("could not identify the goroutine of connection %d", cs.idx)
		}
	}
	learning = nil
	trace = trace[:0]

	choice := 0
	for step := 0; step < 300; step++ {
		// absorb whatever happened meanwhile
		for {
			select {
			case e := <-s.events:
				handle(e)
				continue
			default:
			}
			break
		}
		type action struct {
			cs   *connState
			send bool
		}
		var acts []action
		anyBusy := false
		for _, cs := range conns {
			switch {
			case cs.closed:
			case cs.blocked:
				anyBusy = true
			case cs.parked != nil:
				acts = append(acts, action{cs, false})
			case cs.pending == 0 && cs.next < len(cs.segs):
				acts = append(acts, action{cs, true})
			case cs.pending > 0:
				anyBusy = true
			}
		}
		if len(acts) == 0 {
			if !anyBusy {
				break
			}
			// stragglers: wait for the next event
			select {
			case e := <-s.events:
				handle(e)
				continue
			case <-time.After(waitBudget):
				return trace, fanout, interesting, errBudget
			}
		}
		fanout = append(fanout, len(acts))
		pick := 0
		if choice < len(sc.Choices) {
			pick = sc.Choices[choice] % len(acts)
		}
		choice++
		a := acts[pick]
		holder := lockHolder()
		needsLock := false
		if a.send {
			seg := a.cs.segs[a.cs.next]
			a.cs.next++
			a.cs.inflight = a.cs.inflight[:0]
			var raw []byte
			for _, cmd := range seg {
				raw = append(raw, t38.EncodeCmd(cmd...)...)
				if mk := cmdMarker(cmd); mk != "" {
					a.cs.inflight = append(a.cs.inflight, mk)
				}
			}
			a.cs.pending = len(seg)
			trace = append(trace, fmt.Sprintf("send c%d %s", a.cs.idx, segNames(seg)))
			if err := a.cs.conn.SendRaw(raw); err != nil {
				return trace, fanout, interesting, err
			}
			needsLock = true
		} else {
			p := a.cs.parked
			trace = append(trace, fmt.Sprintf("release c%d@%s", a.cs.idx, p.name))
			if p.name == "dirty-seen" {
				needsLock = true
			}
			if p.name == "flushed" || p.name == "dirty-seen" || p.name == "aof-write" {
				for _, o := range conns {
					if o != a.cs && o.parked != nil && o.parked.name == "pre-write" {
						interesting = true
					}
				}
			}
			a.cs.parked = nil
			close(p.release)
		}
		if holder != nil && holder != a.cs && needsLock {
			// the server lock is held by a parked connection: this one cannot get anywhere
			a.cs.blocked = true
			trace = append(trace, fmt.Sprintf("c%d waits for the lock held by c%d", a.cs.idx, holder.idx))
			continue
		}
		grace := time.Duration(0)
		if holder != nil && holder != a.cs {
			grace = 2 * time.Second
		}
		if err := waitFor(a.cs, grace); err != nil {
			return trace, fanout, interesting, err
		}
	}
	// after everything was acknowledged every marker must be on disk
	for _, cs := range conns {
		for _, seg := range cs.segs[:cs.next] {
			for _, cmd := range seg {
				if mk := cmdMarker(cmd); mk != "" && !cs.closed && !tailHas(s.srv.AOFPath(), mk, 1<<18) && !fileHas(s.srv.AOFPath(), mk) {
					c.Fail(t, "ack-before-flush", fmt.Sprintf("schedule %v: connection %d's acknowledged %s is not in appendonly.aof at the end of the schedule", trace, cs.idx, t38.CmdString(cmd)), sc)
				}
			}
		}
	}
	return trace, fanout, interesting, nil
}

func cmdMarker(cmd []string) string {
	for _, a := range cmd {
		if strings.HasPrefix(a, "mk") && strings.HasSuffix(a, "x") {
			return a
		}
	}
	return ""
}

func segNames(seg [][]string) string {
	var n []string
	for _, c := range seg {
		n = append(n, c[0])
	}
	return strings.Join(n, "+")
}

// TestC08_Exhaustive enumerates every schedule of two connections with one
// single-write segment each (plus the variant where one segment detaches).
func TestC08_Exhaustive(t *testing.T) {
	if ev.Shard() != 0 {
		t.Skip("exhaustive enumeration runs on shard 0")
	}
	c := ev.New("C08", "sched-exhaustive", "exploration")
	t.Cleanup(c.Flush)
	c.Rule("harness-owned scheduler over the verif hook points (pre-write, dirty-seen, aof-write [inside flushAOF, server lock held], flushed, before-conn-write) plus 'send segment' actions: ALL schedules of 2 connections x 1 write each are enumerated by depth-first search over the choice tree (stateless re-execution), for each of the configurations {plain, first connection's segment ends in SUBSCRIBE, 2 writes in one segment}; at every before-conn-write point and at the end the file must contain every acknowledged write. Non-trivial: a schedule in which one connection appends while another sits between its dirty-flag test/flush and its reply; distinct by trace.")
	configs := []schedCase{
		{Conns: [][][]int{{{0}}, {{0}}}, Detach: []int{-1, -1}},
		{Conns: [][][]int{{{0}}, {{1}}}, Detach: []int{0, -1}},
		{Conns: [][][]int{{{0, 2}}, {{4}}}, Detach: []int{-1, -1}},
	}
	if ev.Thorough() {
		configs = append(configs,
			schedCase{Conns: [][][]int{{{0}, {1}}, {{0}}}, Detach: []int{-1, -1}},
			schedCase{Conns: [][][]int{{{0}}, {{0}}, {{0}}}, Detach: []int{-1, -1, -1}},
		)
	}
	total := 0
	for _, cfg := range configs {
		// DFS over choice sequences
		stack := [][]int{{}}
		n := 0
		for len(stack) > 0 {
			prefix := stack[len(stack)-1]
			stack = stack[:len(stack)-1]
			sc := cfg
			sc.Choices = prefix
			c.Case()
			trace, fanout, interesting, err := runSchedule(t, c, sc)
			if err != nil {
				c.Inconclusive("schedule %v: %v", prefix, err)
				continue
			}
			n++
			if interesting {
				c.NonTrivial(strings.Join(trace, ","))
				c.Label("append-inside-window")
			}
			if c.WantSample() {
				c.Sample(map[string]any{"config": cfg.Conns, "detach": cfg.Detach, "trace": trace})
			}
			// children: at every choice point beyond the prefix, the alternatives not taken (default 0)
			for i := len(prefix); i < len(fanout); i++ {
				for alt := 1; alt < fanout[i]; alt++ {
					child := append(append([]int{}, prefix...), make([]int, i-len(prefix))...)
					child = append(child, alt)
					stack = append(stack, child)
				}
			}
			if n > 20000 {
				c.Note("config %v: enumeration capped at 20000 schedules", cfg.Conns)
				break
			}
		}
		c.Note("config conns=%v detach=%v: %d schedules enumerated", cfg.Conns, cfg.Detach, n)
		total += n
	}
	c.Exhaustive(true)
	c.States(total, total)
}

func TestC08_SampledSchedules(t *testing.T) {
	c := ev.New("C08", "sched-sampled", "exploration")
	t.Cleanup(c.Flush)
	c.Rule("random configurations of 2-3 connections x 1-3 segments x 1-2 commands (writes of 8 kinds and reads), optional detaching command at the end of a connection's last segment, with a random schedule over send/release actions; same invariant as the exhaustive sub-check. Non-trivial and distinct as there.")
	ev.Rapid("sched", ev.Pick(100, 1500))
	rapid.Check(t, func(rt *rapid.T) {
		nc := rapid.IntRange(2, 3).Draw(rt, "nconns")
		sc := schedCase{}
		for i := 0; i < nc; i++ {
			nseg := rapid.IntRange(1, 3).Draw(rt, "nseg")
			var segs [][]int
			for j := 0; j < nseg; j++ {
				segs = append(segs, rapid.SliceOfN(rapid.IntRange(-1, 7), 1, 2).Draw(rt, "seg"))
			}
			sc.Conns = append(sc.Conns, segs)
			d := rapid.IntRange(-3, 3).Draw(rt, "detach")
			if d < 0 {
				d = -1
			}
			sc.Detach = append(sc.Detach, d)
		}
		sc.Choices = rapid.SliceOfN(rapid.IntRange(0, 5), 0, 60).Draw(rt, "choices")
		c.Case()
		trace, _, interesting, err := runSchedule(rt, c, sc)
		if err != nil {
			c.Inconclusive("%v", err)
			return
		}
		if interesting {
			c.NonTrivial(strings.Join(trace, ","))
			c.Label("append-inside-window")
			if c.WantSample() {
				c.Sample(map[string]any{"conns": sc.Conns, "detach": sc.Detach, "trace": trace})
			}
		}
	})
}

func TestReplay(t *testing.T) {
	doc, ok := ev.ReplayFile()
	if !ok {
		t.Skip("no replay file")
	}
	c := ev.New("C08", "replay", "exploration")
	t.Cleanup(c.Flush)
	c.Case()
	switch doc.Check {
	case "blackbox":
		var bc bbCase
		if err := json.Unmarshal(doc.Data, &bc); err != nil {
			t.Fatal(err)
		}
		srv, err := t38.Start(t38.Opts{DevMode: true})
		if err != nil {
			t.Fatal(err)
		}
		defer srv.StopAsync()
		for i := 0; i < 50; i++ {
			runBlackBox(t, c, srv, bc)
		}
	case "bgflush":
		var bc bgCase
		if err := json.Unmarshal(doc.Data, &bc); err != nil {
			t.Fatal(err)
		}
		for i := 0; i < 5; i++ {
			runBGFlush(t, c, bc)
		}
	case "promotion":
		runPromotion(t, c, 10)
	default:
		var sc schedCase
		if err := json.Unmarshal(doc.Data, &sc); err != nil {
			t.Fatal(err)
		}
		if _, _, _, err := runSchedule(t, c, sc); err != nil {
			t.Fatal(err)
		}
	}
}

// tailHas looks for mk in the last n bytes of the file.
func tailHas(path, mk string, n int64) bool {
	f, err := os.Open(path)
	if err != nil {
		return false
	}
	defer f.Close()
	st, err := f.Stat()
	if err != nil {
		return false
	}
	off := st.Size() - n
	if off < 0 {
		off = 0
	}
	buf := make([]byte, st.Size()-off)
	if _, err := f.ReadAt(buf, off); err != nil && len(buf) > 0 {
		// short read at EOF is fine
	}
	return bytes.Contains(buf, []byte(mk))
}

// TestC08_Stress is the statistical complement for windows the hook points do
// not bracket: several connections write in tight loops and each checks the
// file right after reading every acknowledgement.
func TestC08_Stress(t *testing.T) {
	c := ev.New("C08", "stress", "exploration")
	t.Cleanup(c.Flush)
	c.Rule("free-running schedule: N connections each issue SETs with unique markers back to back; immediately after reading each acknowledgement the tail of appendonly.aof must contain the marker. Non-trivial: every operation (all run concurrently with the other writers); distinct by (connection, sequence number).")
	srv, err := t38.Start(t38.Opts{})
	if err != nil {
		t.Fatal(err)
	}
	defer srv.StopAsync()
	nconn := 8
	perConn := ev.Pick(3000, 50000)
	var wg sync.WaitGroup
	var mu sync.Mutex
	var firstBad string
	for ci := 0; ci < nconn; ci++ {
		wg.Add(1)
		go func(ci int) {
			defer wg.Done()
			conn := srv.MustDial()
			defer conn.Close()
			for i := 0; i < perConn; i++ {
				mk := fmt.Sprintf("sk%dq%dx", ci, i)
				v, err := conn.Do("SET", "s", mk, "POINT", "1", "2")
				if err != nil || v.IsErr() {
					return
				}
				if !tailHas(srv.AOFPath(), mk, 8192) && !fileHas(srv.AOFPath(), mk) {
					mu.Lock()
					if firstBad == "" {
						firstBad = mk
					}
					mu.Unlock()
					return
				}
				mu.Lock()
				stop := firstBad != ""
				mu.Unlock()
				if stop {
					return
				}
			}
		}(ci)
	}
	wg.Wait()
	c.Cases(nconn * perConn)
	for ci := 0; ci < nconn; ci++ {
		c.NonTrivial(fmt.Sprint("conn", ci))
	}
	c.Sample(map[string]any{"connections": nconn, "writes_per_connection": perConn})
	if firstBad != "" {
		c.Violation("ack-before-flush", "free-running writers: an acknowledged SET (marker "+firstBad+") was not in appendonly.aof when its reply had been read", map[string]any{"stress": true, "marker": firstBad})
		t.Fatalf("ack before flush: %s", firstBad)
	}
}

package c10

import (
	"testing"
	"time"
)

func TestProbeHeavy(t *testing.T) {
	env, err := startFW()
	if err != nil {
		t.Fatal(err)
	}
	defer env.stop()
	for i := 0; i < 25; i++ {
		t0 := time.Now()
		o := runFollowerCase(env, heavyFWCase())
		lv, _ := env.lctl.Do("SERVER")
		fv, _ := env.fctl.Do("SERVER")
		t.Logf("probe %d: %v key=%q inconcl=%q leader=%s follower=%s/%s what=%.200s", i, time.Since(t0).Round(time.Millisecond), o.key, o.inconclusive,
			serverField(lv, "aof_size"), serverField(fv, "aof_size"), serverField(fv, "caught_up"), o.what)
	}
}

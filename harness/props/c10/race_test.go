package c10

import (
	"bytes"
	"fmt"
	"os"
	"os/exec"
	"regexp"
	"strconv"
	"strings"
	"testing"
	"time"

	"github.com/tidwall/tile38/verif/harness/ev"
	"pgregory.net/rapid"
)

// findingLiveRace: several live fence connections on one key compute their
// notifications (FenceMatch -> groupConnect/groupGet on the non-concurrent
// group btrees) while holding only the shared lock.
const findingLiveRace = "live-fence-group-race"

const raceChildEnv = "C10_RACE_CHILD"

func drawLiveHeavyCase(rt *rapid.T) psCase {
	p := psCase{NChan: 1}
	nl := rapid.IntRange(2, 4).Draw(rt, "nlive")
	for i := 0; i < nl; i++ {
		l := liveSpec{Fence: drawFence(rt, fmt.Sprintf("live%d", i)), DelayUs: rapid.IntRange(0, 300).Draw(rt, "delay")}
		if i > 0 && rapid.Bool().Draw(rt, "leaves") {
			l.Leave = rapid.SampledFrom([]string{"quit", "close"}).Draw(rt, "leave")
			l.LeaveUs = rapid.IntRange(0, 2000).Draw(rt, "leaveus")
		}
		p.Lives = append(p.Lives, l)
	}
	if rapid.Bool().Draw(rt, "chanfence") {
		p.Fences = append(p.Fences, drawFence(rt, "f0"))
	}
	npub := rapid.IntRange(2, 3).Draw(rt, "npub")
	for i := 0; i < npub; i++ {
		n := rapid.IntRange(20, 60).Draw(rt, "nops")
		ops := make([]pubOp, n)
		for j := range ops {
			ops[j] = pubOp{Kind: "set", Obj: rapid.IntRange(0, 2).Draw(rt, "obj"), Pos: rapid.IntRange(0, 7).Draw(rt, "pos"),
				Pipe: rapid.IntRange(0, 2).Draw(rt, "pipe") == 0}
		}
		p.Pubs = append(p.Pubs, ops)
	}
	p.Subs = [][]subOp{{{Kind: "sub", Names: []int{0}, Wait: true}}}
	return p
}

// TestC10_RaceChild is the workload of TestC10_RaceLiveFences; it only runs in
// the child process that test starts.
func TestC10_RaceChild(t *testing.T) {
	if os.Getenv(raceChildEnv) == "" {
		t.Skip("only runs as a child of TestC10_RaceLiveFences")
	}
	ev.Rapid("race-child", ev.Pick(40, 300))
	rapid.Check(t, func(rt *rapid.T) {
		p := drawLiveHeavyCase(rt)
		o := runPubSub(p)
		if o.key != "" {
			fmt.Printf("C10CHILD-VIOLATION key=%s what=%s case=%s\n", o.key, o.what, jsonStr(p))
			rt.Fatalf("violation %s: %s", o.key, o.what)
		}
	})
}

var raceFrame = regexp.MustCompile(`(?m)^\s+(github\.com/tidwall/tile38/internal/\S+)\(\)\s*$`)

// TestC10_RaceLiveFences (only in the -race binary) runs histories with 2-4
// live fence connections on one key and 2-3 concurrent writers in a child
// process under the race detector and reports the first data race inside the
// server. The same histories are also checked by the live-fence oracle.
func TestC10_RaceLiveFences(t *testing.T) {
	c := ev.New("C10", "race-live-fences", "exploration")
	t.Cleanup(c.Flush)
	c.Rule("histories with 2-4 live fence connections (generated rectangles and DETECT lists) on one key and 2-3 writer connections sending 20-60 partly pipelined SETs each, executed in a child process built with the race detector; oracle: no data race reported inside the server, plus the live-fence oracle of the pubsub check. Every case is non-trivial (several live fences receive the same writes); distinct by child run.")
	tmp, err := os.MkdirTemp("", "c10race")
	if err != nil {
		t.Fatal(err)
	}
	defer os.RemoveAll(tmp)
	cmd := exec.Command(os.Args[0], "-test.run", "^TestC10_RaceChild$", "-test.v", "-test.count=1", "-test.timeout=300s")
	cmd.Env = append(os.Environ(), raceChildEnv+"=1", "VERIF_PARTS="+tmp, "VERIF_WORK="+tmp+"/work", "VERIF_REPLAYS="+tmp,
		"VERIF_JOURNAL="+tmp+"/journal.txt", "GORACE=halt_on_error=1")
	var out bytes.Buffer
	cmd.Stdout, cmd.Stderr = &out, &out
	start := time.Now()
	runErr := cmd.Run()
	text := out.String()
	if m := regexp.MustCompile(`passed (\d+) tests`).FindStringSubmatch(text); m != nil {
		n, _ := strconv.Atoi(m[1])
		c.Cases(n)
	} else {
		c.Case() // the child stops at the first race report / violation
	}
	c.NonTrivial(fmt.Sprintf("child-%d-%d", ev.BaseSeed(), ev.Shard()))
	if i := strings.Index(text, "WARNING: DATA RACE"); i >= 0 {
		report := text[i:]
		if j := strings.Index(report, "=================="); j > 0 {
			report = report[:j]
		}
		if len(report) > 6000 {
			report = report[:6000]
		}
		key := "data-race"
		var frames []string
		for _, m := range raceFrame.FindAllStringSubmatch(report, -1) {
			frames = append(frames, m[1])
		}
		for _, f := range frames {
			if strings.Contains(f, "group") {
				key = findingLiveRace
				break
			}
		}
		if key == "data-race" && len(frames) > 0 {
			key = "data-race:" + strings.TrimSpace(frames[0])
		}
		what := "race detector: live fence connections and/or writers touch server state concurrently without exclusion; first report:\n" + report
		if ev.KnownActive(key) {
			c.Known(key, what)
			return
		}
		c.Violation(key, what, map[string]any{"how": "bin/check C10 quick runs TestC10_RaceLiveFences in the -race binary", "report": report})
		t.Fatalf("VIOLATION-CANDIDATE key=%s", key)
	}
	if i := strings.Index(text, "C10CHILD-VIOLATION key="); i >= 0 {
		line := text[i:]
		if j := strings.IndexByte(line, '\n'); j > 0 {
			line = line[:j]
		}
		key := strings.Fields(strings.TrimPrefix(line, "C10CHILD-VIOLATION key="))[0]
		c.Violation(key, line, map[string]any{"child_output_tail": tail(text, 4000)})
		t.Fatalf("VIOLATION-CANDIDATE key=%s", key)
	}
	if runErr != nil {
		if strings.Contains(text, "panic:") || strings.Contains(text, "fatal error:") {
			// a crash of the in-process server in the child: same evidence the
			// driver would use for this process
			key := "server-panic"
			if ev.KnownActive(findingLiveRace) && strings.Contains(text, "btree") {
				c.Known(findingLiveRace, "child crashed inside the group btree:\n"+tail(text, 3000))
				return
			}
			c.Violation(key, "the child process running the server crashed:\n"+tail(text, 3000), map[string]any{"child_output_tail": tail(text, 8000)})
			t.Fatalf("VIOLATION-CANDIDATE key=%s", key)
		}
		c.Inconclusive("race child failed without a race report or violation after %v: %v: %s", time.Since(start), runErr, tail(text, 600))
	}
}

func tail(s string, n int) string {
	if len(s) > n {
		return s[len(s)-n:]
	}
	return s
}

// C10: notifications and pub/sub — nothing lost, nothing duplicated, in write
// order. Two generated-history checks against the real in-process server:
// (a) concurrent pub/sub histories checked against an interval-based oracle,
// (b) webhooks with an endpoint that follows a generated failure script,
// checked against a twin channel that carries the same fence.
package c10

import (
	"encoding/json"
	"fmt"
	"os"
	"sort"
	"strings"
	"sync"
	"sync/atomic"
	"testing"
	"time"
	"unicode/utf8"

	"github.com/tidwall/tile38/verif/harness/ev"
	"github.com/tidwall/tile38/verif/harness/t38"
	"pgregory.net/rapid"
)

// ---- monotonic clock ---------------------------------------------------------

var clockBase = time.Now()

// now is the monotonic clock (ns since process start) used for every
// send/receive instant. A send instant is sampled BEFORE the bytes are handed
// to the socket, a receive instant AFTER the value has been parsed, so the
// recorded interval always contains the true one.
func now() int64 { return int64(time.Since(clockBase)) }

// ---- scheduler stall monitor -------------------------------------------------

// stallMon measures how late a 2 ms sleeper wakes up. Other jobs share the
// machine; when the test process itself was starved for long, timing based
// budgets (the server's 5 s HTTP client timeout, the 30 s retention, our own
// delivery budgets) say nothing about the server, and anomalies that such a
// stall can explain are recorded as inconclusive, never as violations.
type stallMon struct {
	mu     sync.Mutex
	events []stallEvent // stalls of more than 50 ms
	stop   chan struct{}
	done   chan struct{}
}

type stallEvent struct{ at, late int64 }

func startStallMon() *stallMon {
	m := &stallMon{stop: make(chan struct{}), done: make(chan struct{})}
	go func() {
		defer close(m.done)
		const step = 2 * time.Millisecond
		for {
			select {
			case <-m.stop:
				return
			default:
			}
			t0 := now()
			time.Sleep(step)
			t1 := now()
			if late := t1 - t0 - int64(step); late > int64(50*time.Millisecond) {
				m.mu.Lock()
				if len(m.events) > 10000 {
					m.events = m.events[5000:]
				}
				m.events = append(m.events, stallEvent{t1, late})
				m.mu.Unlock()
			}
		}
	}()
	return m
}

// MaxSince is the longest stall that ended after instant t.
func (m *stallMon) MaxSince(t int64) time.Duration {
	m.mu.Lock()
	defer m.mu.Unlock()
	var max int64
	for i := len(m.events) - 1; i >= 0 && m.events[i].at >= t; i-- {
		if m.events[i].late > max {
			max = m.events[i].late
		}
	}
	return time.Duration(max)
}

func (m *stallMon) Stop() { close(m.stop); <-m.done }

var mon *stallMon

// ---- shared server -----------------------------------------------------------

var (
	srv     *t38.Srv
	caseSeq atomic.Int64
)

func TestMain(m *testing.M) {
	var err error
	srv, err = t38.Start(t38.Opts{})
	if err != nil {
		fmt.Fprintln(os.Stderr, "cannot start server:", err)
		os.Exit(2)
	}
	mon = startStallMon()
	code := m.Run()
	mon.Stop()
	srv.Stop()
	os.Exit(code)
}

// ---- small helpers -----------------------------------------------------------

// wildMatch is the reference matcher for the documented PSUBSCRIBE pattern
// syntax restricted to what the generator emits: '*' (any run, possibly
// empty) and '?' (exactly one character = one UTF-8 sequence, or one byte
// where the text is not valid UTF-8); everything else is literal. It is
// written independently of tidwall/match.
func wildMatch(pat, s string) bool {
	if pat == "" {
		return s == ""
	}
	switch pat[0] {
	case '*':
		for i := 0; i <= len(s); i++ {
			if wildMatch(pat[1:], s[i:]) {
				return true
			}
		}
		return false
	case '?':
		if s == "" {
			return false
		}
		_, w := utf8.DecodeRuneInString(s)
		return wildMatch(pat[1:], s[w:])
	default:
		return s != "" && s[0] == pat[0] && wildMatch(pat[1:], s[1:])
	}
}

func mustOK(v t38.Value, err error) error {
	if err != nil {
		return err
	}
	if v.IsErr() {
		return fmt.Errorf("error reply: %s", v.Str)
	}
	return nil
}

func sortedKeys[V any](m map[string]V) []string {
	out := make([]string, 0, len(m))
	for k := range m {
		out = append(out, k)
	}
	sort.Strings(out)
	return out
}

func jsonStr(v any) string {
	b, _ := json.Marshal(v)
	return string(b)
}

// findingNameUTF8: a channel / hook whose NAME is not valid UTF-8 never
// delivers, because the receiver is read back out of the JSON text of the
// notification, where invalid bytes have become U+FFFD.
const findingNameUTF8 = "notification-name-not-utf8"

// hostileTail is appended to generated channel / fence-channel / hook names.
// Entry 0 is the plain name; nameTailInvalid marks the entries that are not
// valid UTF-8.
var hostileTail = []string{"", " sp ace ", "\"q'\\", "\x00nul\x00", "\t\r\n", "é✓\u00a0", "<&>{\"k\":1}", strings.Repeat("L", 3000), "\xff", "\xc3", "\xe2\x82"}

const firstInvalidTail = 8

// drawTail picks a name tail: plain in half of the draws; invalid UTF-8 only
// when allowed.
func drawTail(rt *rapid.T, label string, allowInvalid bool) int {
	if rapid.Bool().Draw(rt, label+"plain") {
		return 0
	}
	max := len(hostileTail) - 1
	if !allowInvalid {
		max = firstInvalidTail - 1
	}
	return rapid.IntRange(1, max).Draw(rt, label)
}

// jsonRoundTrip is what a name looks like after it went through a JSON
// document (invalid bytes come back as U+FFFD).
func jsonRoundTrip(s string) string {
	b, _ := json.Marshal(s)
	var out string
	json.Unmarshal(b, &out)
	return out
}

// findingStatus returns the status ("known", "fixed") with which a finding id
// is listed in the findings file, or "" when it is not listed at all.
func findingStatus(id string) string {
	p := os.Getenv("VERIF_KNOWN")
	if p == "" {
		p = "/verif/KNOWN_FINDINGS.jsonl"
	}
	b, err := os.ReadFile(p)
	if err != nil {
		return ""
	}
	for _, line := range strings.Split(string(b), "\n") {
		var f struct {
			ID     string `json:"id"`
			Status string `json:"status"`
		}
		if json.Unmarshal([]byte(line), &f) == nil && f.ID == id {
			return f.Status
		}
	}
	return ""
}

// outcome of one executed case
type outcome struct {
	key          string // violation root-cause key ("" = held)
	what         string
	inconclusive string
	labels       map[string]bool
	counts       map[string]int
	ntKey        string // non-empty when the case is non-trivial
	history      []string
}

func (o *outcome) label(l string) {
	if o.labels == nil {
		o.labels = map[string]bool{}
	}
	o.labels[l] = true
}

func (o *outcome) count(l string, n int) {
	if o.counts == nil {
		o.counts = map[string]int{}
	}
	o.counts[l] += n
}

func (o *outcome) fail(key, format string, a ...any) {
	if o.key == "" {
		o.key = key
		o.what = fmt.Sprintf(format, a...)
	}
}

func (o *outcome) hist(format string, a ...any) {
	if len(o.history) < 400 {
		o.history = append(o.history, fmt.Sprintf(format, a...))
	}
}

// waitCond waits on cond (whose L is held by the caller) until pred() or the
// deadline; it returns pred(). A helper goroutine wakes the waiter up at the
// deadline.
func waitCond(cond *sync.Cond, deadline time.Time, pred func() bool) bool {
	if pred() {
		return true
	}
	stop := make(chan struct{})
	defer close(stop)
	go func() {
		t := time.NewTimer(time.Until(deadline))
		defer t.Stop()
		tick := time.NewTicker(50 * time.Millisecond)
		defer tick.Stop()
		for {
			select {
			case <-stop:
				return
			case <-t.C:
				cond.Broadcast()
				return
			case <-tick.C:
				cond.Broadcast()
			}
		}
	}()
	for !pred() {
		if !time.Now().Before(deadline) {
			return pred()
		}
		cond.Wait()
	}
	return true
}

func applyOutcome(c *ev.Collector, o *outcome) {
	for l := range o.labels {
		c.Label(l)
	}
	for l, n := range o.counts {
		c.LabelN(l, n)
	}
	if o.inconclusive != "" {
		c.Inconclusive("%s", o.inconclusive)
		c.Label("inconclusive")
	}
	if o.ntKey != "" && o.key == "" && o.inconclusive == "" {
		c.NonTrivial(o.ntKey)
	}
}

func shortJoin(xs []string, n int) string {
	if len(xs) > n {
		return strings.Join(xs[:n], " | ") + fmt.Sprintf(" | ...(%d more)", len(xs)-n)
	}
	return strings.Join(xs, " | ")
}

package c10

import (
	"fmt"
	"strings"
	"sync/atomic"
	"testing"
	"time"
	"unicode/utf8"

	"github.com/tidwall/tile38/verif/harness/ev"
	"github.com/tidwall/tile38/verif/harness/t38"
)

// nameProbe installs one channel fence and one webhook fence whose names end
// in tail, makes one acknowledged SET enter both, and reports how many
// notifications the channel's subscriber got before a sentinel published on
// the same channel, and whether the endpoint was called.
func nameProbe(tail string) (chanMsgs int, hookCalled bool, err error) {
	n := caseSeq.Add(1)
	key := fmt.Sprintf("npk%d", n)
	ch := fmt.Sprintf("npc%d", n) + tail
	hk := fmt.Sprintf("nph%d", n) + tail
	ctl := srv.MustDial()
	defer ctl.Close()
	sub := srv.MustDial()
	defer sub.Close()
	var cnt atomic.Int64
	ep, err := newEndpoint(nil, &cnt, "/np")
	if err != nil {
		return 0, false, err
	}
	ep.open()
	defer ep.shut(true)
	fence := []string{"WITHIN", key, "FENCE", "BOUNDS", "-1", "0.5", "1", "2.5"}
	if err := mustOK(ctl.Do(append([]string{"SETCHAN", ch}, fence...)...)); err != nil {
		return 0, false, fmt.Errorf("SETCHAN: %v", err)
	}
	if err := mustOK(ctl.Do(append([]string{"SETHOOK", hk, ep.url()}, fence...)...)); err != nil {
		return 0, false, fmt.Errorf("SETHOOK: %v", err)
	}
	defer func() {
		ctl.Do("DELCHAN", ch)
		ctl.Do("DELHOOK", hk)
		ctl.Do("DROP", key)
	}()
	if v, err := sub.Do("SUBSCRIBE", ch); err != nil || v.Kind != '*' || len(v.Arr) != 3 || v.Arr[1].Str != ch {
		return 0, false, fmt.Errorf("SUBSCRIBE: %v %v", v, err)
	}
	if err := mustOK(ctl.Do("SET", key, "o", "POINT", "0", "1")); err != nil {
		return 0, false, fmt.Errorf("SET: %v", err)
	}
	if v, err := ctl.Do("PUBLISH", ch, "END"); err != nil || v.Kind != ':' || v.Int != 1 {
		return 0, false, fmt.Errorf("PUBLISH sentinel on the same name: %v %v", v, err)
	}
	for {
		v, err := sub.RecvTimeout(t38.ReplyTimeout)
		if err != nil {
			return chanMsgs, false, fmt.Errorf("subscriber: %v", err)
		}
		if v.Kind == '*' && len(v.Arr) == 3 && v.Arr[2].Str == "END" {
			break
		}
		chanMsgs++
	}
	// the hook sender works asynchronously; a healthy local endpoint is
	// normally called within a millisecond
	ep.mu.Lock()
	wait := 5 * time.Second
	if chanMsgs == 0 {
		wait = 1500 * time.Millisecond // the channel twin already failed; do not spend long on the hook
	}
	hookCalled = waitCond(ep.cond, time.Now().Add(wait), func() bool { return len(ep.ok) >= 2 })
	ep.mu.Unlock()
	return chanMsgs, hookCalled, nil
}

const findingSharedQueue = "hook-queue-shared-by-non-utf8-names"

// sharedQueueProbe: two webhooks whose names differ only in bytes that are
// not valid UTF-8 (so they read the same inside JSON); the first watches
// collection A and its endpoint answers 500, the second watches collection B
// and its endpoint is healthy. Returns a description of the first request
// that reached an endpoint with the other hook's collection, or of a lost /
// duplicated / reordered delivery at the healthy endpoint.
func sharedQueueProbe(tailDown, tailUp string) (string, error) {
	n := caseSeq.Add(1)
	keyA, keyB := fmt.Sprintf("nqa%d", n), fmt.Sprintf("nqb%d", n)
	hDown, hUp := fmt.Sprintf("nq%d", n)+tailDown, fmt.Sprintf("nq%d", n)+tailUp
	ctl := srv.MustDial()
	defer ctl.Close()
	var cnt atomic.Int64
	epDown, err := newEndpoint(nil, &cnt, "/down")
	if err != nil {
		return "", err
	}
	epUp, err := newEndpoint(nil, &cnt, "/up")
	if err != nil {
		return "", err
	}
	epDown.force = "500"
	epDown.open()
	epUp.open()
	defer epDown.shut(true)
	defer epUp.shut(true)
	defer func() {
		ctl.Do("DELHOOK", hDown)
		ctl.Do("DELHOOK", hUp)
		ctl.Do("DROP", keyA)
		ctl.Do("DROP", keyB)
	}()
	fence := func(key string) []string {
		return []string{"WITHIN", key, "FENCE", "DETECT", "enter", "BOUNDS", "-1", "0.5", "1", "1.5"}
	}
	if err := mustOK(ctl.Do(append([]string{"SETHOOK", hDown, epDown.url()}, fence(keyA)...)...)); err != nil {
		return "", fmt.Errorf("SETHOOK: %v", err)
	}
	if err := mustOK(ctl.Do(append([]string{"SETHOOK", hUp, epUp.url()}, fence(keyB)...)...)); err != nil {
		return "", fmt.Errorf("SETHOOK: %v", err)
	}
	var wantUp []string
	for i := 0; i < 3; i++ {
		if err := mustOK(ctl.Do("SET", keyA, fmt.Sprintf("a%d", i), "POINT", "0", "1")); err != nil {
			return "", err
		}
	}
	for i := 0; i < 4; i++ {
		id := fmt.Sprintf("b%d", i)
		wantUp = append(wantUp, id)
		if err := mustOK(ctl.Do("SET", keyB, id, "POINT", "0", "1")); err != nil {
			return "", err
		}
	}
	// deliveries are in queue order: once the last one of B has been answered
	// 200 everything queued before it has been tried
	last := wantUp[len(wantUp)-1]
	epUp.mu.Lock()
	done := waitCond(epUp.cond, time.Now().Add(t38.ReplyTimeout), func() bool {
		for _, b := range epUp.ok {
			if strings.Contains(b, `"`+last+`"`) {
				return true
			}
		}
		return false
	})
	epUp.mu.Unlock()
	if !done {
		return "", fmt.Errorf("the healthy endpoint did not receive its last notification within %v (%d requests so far)", t38.ReplyTimeout, len(lcBodies(epUp)))
	}
	next := 0
	for i, r := range lcBodies(epUp) {
		if r.Key != keyB {
			return fmt.Sprintf("the healthy endpoint of hook %q (collection %s) received request #%d with key=%q id=%q, a notification of hook %q", hUp, keyB, i, r.Key, r.ID, hDown), nil
		}
		if next >= len(wantUp) || r.ID != wantUp[next] {
			return fmt.Sprintf("the healthy endpoint of hook %q received %q as request #%d, expected %v in order, once", hUp, r.ID, i, wantUp), nil
		}
		next++
	}
	for i, r := range lcBodies(epDown) {
		if r.Key != keyA {
			return fmt.Sprintf("the failing endpoint of hook %q (collection %s) received request #%d with key=%q id=%q, a notification of hook %q", hDown, keyA, i, r.Key, r.ID, hUp), nil
		}
	}
	return "", nil
}

func TestC10_Names(t *testing.T) {
	c := ev.New("C10", "names", "exploration")
	t.Cleanup(c.Flush)
	c.Rule("deterministic probes: for every entry of the hostile name-tail list (spaces, quotes and backslash, NUL, control characters, multi-byte UTF-8, JSON-looking text, 3000 bytes, three kinds of invalid UTF-8) one SETCHAN fence and one SETHOOK fence with that name, an acknowledged subscriber, one acknowledged SET entering the fence, a sentinel PUBLISH on the same channel name. Oracle: the subscriber gets enter+inside before the sentinel and the endpoint is called twice. Then four pairs of webhooks whose names differ only in invalid UTF-8 bytes (equal inside JSON), the first on collection A with an endpoint answering 500, the second on collection B with a healthy endpoint, 3 + 4 acknowledged entering SETs: every request must reach the endpoint of the hook whose collection it names, the healthy one gets its 4 in order, once. The same tails are drawn for channel, fence-channel and hook names in the pubsub, webhook, webhook-restart and hook-lifecycle sub-checks. Every probe is non-trivial; distinct by tail.")
	start := now()
	for i, tail := range hostileTail {
		c.Case()
		invalid := !utf8.ValidString(tail)
		msgs, called, err := nameProbe(tail)
		c.NonTrivial(fmt.Sprintf("tail-%d", i))
		what := fmt.Sprintf("name tail %q: subscriber of the exact channel name received %d of 2 notifications before the sentinel, endpoint of the hook called: %v, %v", tail, msgs, called, err)
		bad := err != nil || msgs != 2 || !called
		if bad && mon.MaxSince(start) > time.Second && msgs == 2 {
			c.Inconclusive("%s (test process stalled)", what)
			continue
		}
		switch {
		case bad && invalid:
			if ev.KnownActive(findingNameUTF8) {
				c.Known(findingNameUTF8, what)
			} else {
				c.Violation(findingNameUTF8, what, map[string]any{"tail_bytes": []byte(tail), "how": "SETCHAN/SETHOOK <name+tail> WITHIN k FENCE BOUNDS -1 0.5 1 2.5; SUBSCRIBE <name+tail>; SET k o POINT 0 1"})
				t.Errorf("VIOLATION-CANDIDATE key=%s: %s", findingNameUTF8, what)
			}
		case bad:
			c.Violation("hostile-name-not-delivered", what, map[string]any{"tail": tail})
			t.Errorf("VIOLATION-CANDIDATE key=hostile-name-not-delivered: %s", what)
		default:
			c.Label("delivered:tail-" + fmt.Sprint(i))
		}
	}
	if ev.KnownActive(findingNameUTF8) {
		c.Excluded(findingNameUTF8)
	}
	// webhook queue: names that differ only in invalid bytes
	for i, pair := range [][2]string{{"\xff", "\xfe"}, {"\xfe", "\xff"}, {"x\xc3", "x\xe2\x82"}, {"\xff\xff", "\xff\xfe"}} {
		c.Case()
		c.NonTrivial(fmt.Sprintf("pair-%d", i))
		what, err := sharedQueueProbe(pair[0], pair[1])
		switch {
		case err != nil && mon.MaxSince(start) > time.Second:
			c.Inconclusive("shared-queue probe %q/%q: %v (test process stalled)", pair[0], pair[1], err)
		case err != nil:
			c.Violation("webhook-stalled", fmt.Sprintf("shared-queue probe %q/%q: %v", pair[0], pair[1], err), nil)
			t.Errorf("VIOLATION-CANDIDATE key=webhook-stalled: %v", err)
		case what != "":
			if ev.KnownActive(findingSharedQueue) {
				c.Known(findingSharedQueue, what)
				continue
			}
			c.Violation(findingSharedQueue, what, map[string]any{"tails": [][]byte{[]byte(pair[0]), []byte(pair[1])},
				"how": "SETHOOK <n+tail0> <endpoint answering 500> WITHIN A FENCE DETECT enter BOUNDS -1 0.5 1 1.5; SETHOOK <n+tail1> <healthy endpoint> WITHIN B ...; 3 SETs into A, 4 into B"})
			t.Errorf("VIOLATION-CANDIDATE key=%s: %s", findingSharedQueue, what)
		default:
			c.Label("hooks-with-names-equal-in-JSON-kept-apart")
		}
	}
}

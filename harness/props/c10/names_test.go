package c10

import (
	"fmt"
	"sync/atomic"
	"testing"
	"time"
	"unicode/utf8"

	"github.com/tidwall/tile38/verif/harness/ev"
	"github.com/tidwall/tile38/verif/harness/t38"
)

// nameProbe installs one channel fence and one webhook fence whose names end
// in tail, makes one acknowledged SET enter both, and reports how many
// notifications the channel's subscriber got before a sentinel published on
// the same channel, and whether the endpoint was called.
func nameProbe(tail string) (chanMsgs int, hookCalled bool, err error) {
	n := caseSeq.Add(1)
	key := fmt.Sprintf("npk%d", n)
	ch := fmt.Sprintf("npc%d", n) + tail
	hk := fmt.Sprintf("nph%d", n) + tail
	ctl := srv.MustDial()
	defer ctl.Close()
	sub := srv.MustDial()
	defer sub.Close()
	var cnt atomic.Int64
	ep, err := newEndpoint(nil, &cnt, "/np")
	if err != nil {
		return 0, false, err
	}
	ep.open()
	defer ep.shut(true)
	fence := []string{"WITHIN", key, "FENCE", "BOUNDS", "-1", "0.5", "1", "2.5"}
	if err := mustOK(ctl.Do(append([]string{"SETCHAN", ch}, fence...)...)); err != nil {
		return 0, false, fmt.Errorf("SETCHAN: %v", err)
	}
	if err := mustOK(ctl.Do(append([]string{"SETHOOK", hk, ep.url()}, fence...)...)); err != nil {
		return 0, false, fmt.Errorf("SETHOOK: %v", err)
	}
	defer func() {
		ctl.Do("DELCHAN", ch)
		ctl.Do("DELHOOK", hk)
		ctl.Do("DROP", key)
	}()
	if v, err := sub.Do("SUBSCRIBE", ch); err != nil || v.Kind != '*' || len(v.Arr) != 3 || v.Arr[1].Str != ch {
		return 0, false, fmt.Errorf("SUBSCRIBE: %v %v", v, err)
	}
	if err := mustOK(ctl.Do("SET", key, "o", "POINT", "0", "1")); err != nil {
		return 0, false, fmt.Errorf("SET: %v", err)
	}
	if v, err := ctl.Do("PUBLISH", ch, "END"); err != nil || v.Kind != ':' || v.Int != 1 {
		return 0, false, fmt.Errorf("PUBLISH sentinel on the same name: %v %v", v, err)
	}
	for {
		v, err := sub.RecvTimeout(t38.ReplyTimeout)
		if err != nil {
			return chanMsgs, false, fmt.Errorf("subscriber: %v", err)
		}
		if v.Kind == '*' && len(v.Arr) == 3 && v.Arr[2].Str == "END" {
			break
		}
		chanMsgs++
	}
	// the hook sender works asynchronously; a healthy local endpoint is
	// normally called within a millisecond
	ep.mu.Lock()
	wait := 5 * time.Second
	if chanMsgs == 0 {
		wait = 1500 * time.Millisecond // the channel twin already failed; do not spend long on the hook
	}
	hookCalled = waitCond(ep.cond, time.Now().Add(wait), func() bool { return len(ep.ok) >= 2 })
	ep.mu.Unlock()
	return chanMsgs, hookCalled, nil
}

func TestC10_Names(t *testing.T) {
	c := ev.New("C10", "names", "exploration")
	t.Cleanup(c.Flush)
	c.Rule("deterministic probes: for every entry of the hostile name-tail list (spaces, quotes and backslash, NUL, control characters, multi-byte UTF-8, JSON-looking text, 3000 bytes, three kinds of invalid UTF-8) one SETCHAN fence and one SETHOOK fence with that name, an acknowledged subscriber, one acknowledged SET entering the fence, a sentinel PUBLISH on the same channel name. Oracle: the subscriber gets enter+inside before the sentinel and the endpoint is called twice. The same tails are drawn for channel, fence-channel and hook names in the pubsub, webhook and webhook-restart sub-checks. Every probe is non-trivial; distinct by tail.")
	start := now()
	for i, tail := range hostileTail {
		c.Case()
		invalid := !utf8.ValidString(tail)
		msgs, called, err := nameProbe(tail)
		c.NonTrivial(fmt.Sprintf("tail-%d", i))
		what := fmt.Sprintf("name tail %q: subscriber of the exact channel name received %d of 2 notifications before the sentinel, endpoint of the hook called: %v, %v", tail, msgs, called, err)
		bad := err != nil || msgs != 2 || !called
		if bad && mon.MaxSince(start) > time.Second && msgs == 2 {
			c.Inconclusive("%s (test process stalled)", what)
			continue
		}
		switch {
		case bad && invalid:
			if ev.KnownActive(findingNameUTF8) {
				c.Known(findingNameUTF8, what)
			} else {
				c.Violation(findingNameUTF8, what, map[string]any{"tail_bytes": []byte(tail), "how": "SETCHAN/SETHOOK <name+tail> WITHIN k FENCE BOUNDS -1 0.5 1 2.5; SUBSCRIBE <name+tail>; SET k o POINT 0 1"})
				t.Errorf("VIOLATION-CANDIDATE key=%s: %s", findingNameUTF8, what)
			}
		case bad:
			c.Violation("hostile-name-not-delivered", what, map[string]any{"tail": tail})
			t.Errorf("VIOLATION-CANDIDATE key=hostile-name-not-delivered: %s", what)
		default:
			c.Label("delivered:tail-" + fmt.Sprint(i))
		}
	}
	if ev.KnownActive(findingNameUTF8) {
		c.Excluded(findingNameUTF8)
	}
}

package c10

import (
	"bufio"
	"bytes"
	"fmt"
	"io"
	"net"
	"strconv"
	"strings"
	"sync"
	"testing"
	"time"

	"github.com/tidwall/tile38/verif/harness/ev"
	"github.com/tidwall/tile38/verif/harness/t38"
	"pgregory.net/rapid"
)

// The leader forwards every PUBLISH (and every channel-fence notification) to
// its followers, which hand it to their own subscribers. This check puts
// subscribers on a follower and watches the replication connection itself.

// findingForwardTear: forwarded PUBLISH frames are written onto the
// replication connection by a second goroutine while the log tail is being
// streamed in chunks that do not end at command boundaries.
const findingForwardTear = "publish-forward-tears-replication"

// ---- capturing TCP proxy ---------------------------------------------------------

type proxyConn struct {
	mu     sync.Mutex
	up     bytes.Buffer // follower -> leader (first 4 KB)
	down   bytes.Buffer // leader -> follower, not yet verified
	total  int64
	closed bool
}

type proxy struct {
	ln     net.Listener
	target string
	mu     sync.Mutex
	conns  []*proxyConn
	raw    []net.Conn
}

func newProxy(target string) (*proxy, error) {
	ln, err := net.Listen("tcp", "127.0.0.1:0")
	if err != nil {
		return nil, err
	}
	p := &proxy{ln: ln, target: target}
	go p.serve()
	return p, nil
}

func (p *proxy) port() int { return p.ln.Addr().(*net.TCPAddr).Port }

func (p *proxy) serve() {
	for {
		c, err := p.ln.Accept()
		if err != nil {
			return
		}
		u, err := net.Dial("tcp", p.target)
		if err != nil {
			c.Close()
			continue
		}
		pc := &proxyConn{}
		p.mu.Lock()
		p.conns = append(p.conns, pc)
		p.raw = append(p.raw, c, u)
		p.mu.Unlock()
		go func() { // follower -> leader
			buf := make([]byte, 32<<10)
			for {
				n, err := c.Read(buf)
				if n > 0 {
					pc.mu.Lock()
					if pc.up.Len() < 4096 {
						pc.up.Write(buf[:n])
					}
					pc.mu.Unlock()
					if _, werr := u.Write(buf[:n]); werr != nil {
						break
					}
				}
				if err != nil {
					break
				}
			}
			u.Close()
			c.Close()
		}()
		go func() { // leader -> follower
			buf := make([]byte, 32<<10)
			for {
				n, err := u.Read(buf)
				if n > 0 {
					pc.mu.Lock()
					pc.down.Write(buf[:n])
					pc.total += int64(n)
					pc.mu.Unlock()
					if _, werr := c.Write(buf[:n]); werr != nil {
						break
					}
				}
				if err != nil {
					break
				}
			}
			pc.mu.Lock()
			pc.closed = true
			pc.mu.Unlock()
			u.Close()
			c.Close()
		}()
	}
}

func (p *proxy) close() {
	p.ln.Close()
	p.mu.Lock()
	for _, c := range p.raw {
		c.Close()
	}
	p.mu.Unlock()
}

// replState reports how many replication connections (those on which the
// follower asked for the log) were opened so far and whether the newest of
// them has ended.
func (p *proxy) replState() (opened int, activeClosed bool) {
	p.mu.Lock()
	conns := append([]*proxyConn{}, p.conns...)
	p.mu.Unlock()
	for _, pc := range conns {
		pc.mu.Lock()
		if bytes.Contains(bytes.ToLower(pc.up.Bytes()), []byte("\r\naof\r\n")) {
			opened++
			activeClosed = pc.closed
		}
		pc.mu.Unlock()
	}
	return opened, activeClosed
}

// verifyStreams parses everything the leader sent on every proxied connection
// since the last call. At a quiescent instant it must be a whole number of
// well-formed RESP values. It returns the number of replication connections
// (those on which the follower asked for the log) seen so far.
func (p *proxy) verifyStreams() (replConns int, bad string) {
	p.mu.Lock()
	conns := append([]*proxyConn{}, p.conns...)
	p.mu.Unlock()
	for i, pc := range conns {
		pc.mu.Lock()
		data := append([]byte{}, pc.down.Bytes()...)
		isRepl := bytes.Contains(bytes.ToLower(pc.up.Bytes()), []byte("\r\naof\r\n"))
		closed := pc.closed
		pc.down.Reset()
		pc.mu.Unlock()
		if isRepl {
			replConns++
		}
		br := bufio.NewReader(bytes.NewReader(data))
		off := 0
		for {
			if _, err := br.Peek(1); err == io.EOF {
				break
			}
			v, err := t38.ReadValue(br)
			if err != nil {
				if closed && !isRepl {
					break // a helper connection cut off by its own close
				}
				if bad == "" {
					ctx := data
					if len(ctx) > 300 {
						ctx = ctx[:300]
					}
					bad = fmt.Sprintf("connection %d (replication=%v, closed=%v): after %d well-formed values the leader's bytes stop being RESP: %v; unverified segment starts with %q",
						i, isRepl, closed, off, err, ctx)
				}
				break
			}
			if isRepl && v.Kind == '*' {
				for _, a := range v.Arr {
					if a.Kind != '$' {
						if bad == "" {
							bad = fmt.Sprintf("connection %d: replicated command with a non-bulk argument: %.200s", i, v.String())
						}
					}
				}
			}
			off++
		}
	}
	return replConns, bad
}

// ---- case ----------------------------------------------------------------------------

type fwBurst struct {
	N    int  `json:"n"`
	Size int  `json:"size"` // 0: POINT write (fence-triggering); >0: STRING value of that many bytes
	Pipe bool `json:"pipe,omitempty"`
}

type fwCase struct {
	Fence   *fenceSpec `json:"fence,omitempty"`
	Pattern bool       `json:"pattern,omitempty"` // second follower subscriber uses PSUBSCRIBE
	// LeaderSub: who is subscribed on the LEADER meanwhile — "none" (nobody at
	// all), "other" (one connection on an unrelated channel), "same" (one on
	// the same channels; it is checked like the follower's subscribers),
	// "churn" (one connection that keeps subscribing to and unsubscribing from
	// the channel, or an unrelated one, while the traffic runs)
	LeaderSub string      `json:"leader_sub"`
	ChurnSame bool        `json:"churn_same,omitempty"`
	NSubs     int         `json:"nsubs"`
	Pubs      [][]int     `json:"pubs"`    // per publisher: sizes of pipelined PUBLISH batches
	Writers   [][]fwBurst `json:"writers"` // per writer connection
	// Phased: writers run first, the follower catches up, then the publishers
	// run — log data and forwarded PUBLISH frames never share the link at the
	// same time (the shape generated while findingForwardTear is excluded)
	Phased bool `json:"phased,omitempty"`
}

func drawFWCase(rt *rapid.T, gentle bool) fwCase {
	var p fwCase
	if rapid.Bool().Draw(rt, "fence") {
		f := drawFence(rt, "f")
		f.Detect = nil
		p.Fence = &f
	}
	p.NSubs = rapid.IntRange(1, 2).Draw(rt, "nsubs")
	p.LeaderSub = rapid.SampledFrom([]string{"none", "none", "other", "same", "same", "churn"}).Draw(rt, "leadersub")
	p.ChurnSame = rapid.Bool().Draw(rt, "churnsame")
	p.Pattern = rapid.Bool().Draw(rt, "pattern")
	npub := rapid.IntRange(1, 2).Draw(rt, "npub")
	for i := 0; i < npub; i++ {
		nb := rapid.IntRange(1, 5).Draw(rt, "nbatch")
		var b []int
		for k := 0; k < nb; k++ {
			b = append(b, rapid.SampledFrom([]int{1, 1, 5, 40, 200, 600}).Draw(rt, "batch"))
		}
		p.Pubs = append(p.Pubs, b)
	}
	nw := rapid.IntRange(1, 2).Draw(rt, "nw")
	for i := 0; i < nw; i++ {
		nb := rapid.IntRange(1, 4).Draw(rt, "nburst")
		var bs []fwBurst
		for k := 0; k < nb; k++ {
			b := fwBurst{N: rapid.IntRange(1, 40).Draw(rt, "n"), Pipe: rapid.IntRange(0, 3).Draw(rt, "pipe") != 0}
			if rapid.Bool().Draw(rt, "string") {
				b.Size = rapid.SampledFrom([]int{10, 500, 5000, 20000, 60000}).Draw(rt, "size")
			}
			bs = append(bs, b)
		}
		p.Writers = append(p.Writers, bs)
	}
	if gentle {
		// known finding excluded by construction: no notification is forwarded
		// while log data is in flight (the leader does not wait for followers,
		// so even awaited small writes pile up behind a PUBLISH storm)
		p.Phased = true
		p.Fence = nil
	}
	return p
}

type fwEnv struct {
	leader, follower *t38.Srv
	px               *proxy
	fctl, lctl       *t38.Conn
}

func startFW() (*fwEnv, error) {
	e := &fwEnv{}
	var err error
	if e.leader, err = t38.Start(t38.Opts{}); err != nil {
		return nil, err
	}
	if e.follower, err = t38.Start(t38.Opts{}); err != nil {
		e.leader.Stop()
		return nil, err
	}
	if e.px, err = newProxy(e.leader.Addr); err != nil {
		e.stop()
		return nil, err
	}
	e.fctl = e.follower.MustDial()
	e.lctl = e.leader.MustDial()
	if err := mustOK(e.fctl.Do("FOLLOW", "127.0.0.1", strconv.Itoa(e.px.port()))); err != nil {
		e.stop()
		return nil, err
	}
	return e, nil
}

func (e *fwEnv) stop() {
	if e.fctl != nil {
		e.fctl.Close()
	}
	if e.lctl != nil {
		e.lctl.Close()
	}
	if e.px != nil {
		e.px.close()
	}
	if e.follower != nil {
		e.follower.Stop()
	}
	if e.leader != nil {
		e.leader.Stop()
	}
}

func serverField(v t38.Value, name string) string {
	for i := 0; i+1 < len(v.Arr); i += 2 {
		if v.Arr[i].Str == name {
			return v.Arr[i+1].Str
		}
	}
	return ""
}

// waitCaughtUp waits until the follower reports caught_up with the leader's
// log size.
func (e *fwEnv) waitCaughtUp(budget time.Duration) bool {
	deadline := time.Now().Add(budget)
	for time.Now().Before(deadline) {
		lv, err1 := e.lctl.Do("SERVER")
		fv, err2 := e.fctl.Do("SERVER")
		if err1 == nil && err2 == nil && !fv.IsErr() && serverField(fv, "caught_up") == "true" &&
			serverField(fv, "aof_size") == serverField(lv, "aof_size") {
			return true
		}
		time.Sleep(5 * time.Millisecond)
	}
	return false
}

type fwSub struct {
	leader bool // sits on the leader (reference), not on the follower
	conn   *t38.Conn
	sub    string // "c:name" or "p:pattern"
	ack    int64
	mu     sync.Mutex
	got    []string // payloads in order
	end    bool
	err    string
	done   chan struct{}
}

func (s *fwSub) run(endPayload string) {
	defer close(s.done)
	for {
		v, err := s.conn.RecvTimeout(t38.ReplyTimeout)
		if err != nil {
			s.mu.Lock()
			s.err = err.Error()
			s.mu.Unlock()
			return
		}
		var payload string
		switch {
		case v.Kind == '*' && len(v.Arr) == 3 && v.Arr[0].Str == "message":
			payload = v.Arr[2].Str
		case v.Kind == '*' && len(v.Arr) == 4 && v.Arr[0].Str == "pmessage":
			payload = v.Arr[3].Str
		default:
			s.mu.Lock()
			s.err = "unexpected value: " + v.String()
			s.mu.Unlock()
			return
		}
		s.mu.Lock()
		if payload == endPayload {
			s.end = true
			s.mu.Unlock()
			return
		}
		s.got = append(s.got, payload)
		s.mu.Unlock()
	}
}

func runFollowerCase(e *fwEnv, p fwCase) *outcome {
	o := &outcome{}
	n := caseSeq.Add(1)
	t0 := now()
	if !e.waitCaughtUp(20 * time.Second) {
		o.inconclusive = "follower did not report caught_up with the leader's log size within 20 s before the case"
		return o
	}
	openedBefore, _ := e.px.replState()
	replBefore, bad0 := e.px.verifyStreams()
	if bad0 != "" {
		o.fail(findingForwardTear, "before the case: %s", bad0)
		return o
	}
	ch := fmt.Sprintf("fw%d:a", n)
	fch := fmt.Sprintf("fw%d:f", n)
	key := fmt.Sprintf("fwk%d", n)
	var conns []*t38.Conn
	defer func() {
		for _, c := range conns {
			c.Close()
		}
		if p.Fence != nil {
			e.lctl.Do("DELCHAN", fch)
		}
		e.lctl.Do("DROP", key)
	}()
	dial := func(s *t38.Srv) *t38.Conn {
		c, err := s.Dial()
		if err != nil {
			panic(err)
		}
		conns = append(conns, c)
		return c
	}
	if p.Fence != nil {
		if err := mustOK(e.lctl.Do(append([]string{"SETCHAN", fch}, fenceArgs(*p.Fence, key)...)...)); err != nil {
			panic(err)
		}
	}
	// subscribers on the follower, all acknowledged before any traffic; what
	// is subscribed on the leader meanwhile is a dimension of the case
	var subs []*fwSub
	for i := 0; i <= p.NSubs; i++ {
		s := &fwSub{done: make(chan struct{}), leader: i == 0}
		if i == 0 {
			if p.LeaderSub != "same" {
				continue
			}
			s.conn = dial(e.leader)
		} else {
			s.conn = dial(e.follower)
		}
		var v1 t38.Value
		var err error
		if i == 2 && p.Pattern {
			s.sub = "p:" + fmt.Sprintf("fw%d:*", n)
			v1, err = s.conn.Do("PSUBSCRIBE", s.sub[2:])
		} else {
			s.sub = "c:" + ch
			v1, err = s.conn.Do("SUBSCRIBE", ch, fch)
			if err == nil {
				v1, err = s.conn.Recv()
			}
		}
		if err != nil || v1.Kind != '*' {
			panic(fmt.Sprintf("subscribe: %v %v", v1, err))
		}
		s.ack = now()
		subs = append(subs, s)
	}
	o.label("leader-subscribers:" + p.LeaderSub)
	other := fmt.Sprintf("fwother%d", n)
	stopChurn := make(chan struct{})
	churnDone := make(chan struct{})
	switch p.LeaderSub {
	case "other":
		c := dial(e.leader)
		if v, err := c.Do("SUBSCRIBE", other); err != nil || v.Kind != '*' {
			panic(fmt.Sprintf("subscribe other: %v %v", v, err))
		}
		close(churnDone)
	case "churn":
		c := dial(e.leader)
		name := other
		if p.ChurnSame {
			name = ch
		}
		go func() {
			defer close(churnDone)
			await := func(tag string) bool {
				for {
					v, err := c.RecvTimeout(t38.ReplyTimeout)
					if err != nil {
						return false
					}
					if v.Kind == '*' && len(v.Arr) == 3 && v.Arr[0].Str == tag {
						return true
					}
				}
			}
			for k := 0; ; k++ {
				select {
				case <-stopChurn:
					return
				default:
				}
				if c.Send("SUBSCRIBE", name) != nil || !await("subscribe") {
					return
				}
				time.Sleep(time.Duration(50+37*k%400) * time.Microsecond)
				if c.Send("UNSUBSCRIBE", name) != nil || !await("unsubscribe") {
					return
				}
				time.Sleep(time.Duration(20+53*k%300) * time.Microsecond)
			}
		}()
	default:
		close(churnDone)
	}
	endPayload := fmt.Sprintf("END|%d", n)
	for _, s := range subs {
		go s.run(endPayload)
	}
	// traffic on the leader
	var wg sync.WaitGroup
	errs := make(chan string, 16)
	sent := make([][]string, len(p.Pubs)) // per publisher: payloads in send order
	startPubs := func() {
		for pi, batches := range p.Pubs {
			wg.Add(1)
			c := dial(e.leader)
			go func(pi int, batches []int) {
				defer wg.Done()
				k := 0
				for _, bn := range batches {
					for i := 0; i < bn; i++ {
						payload := fmt.Sprintf("m|%d|%d", pi, k)
						k++
						sent[pi] = append(sent[pi], payload)
						if err := c.Send("PUBLISH", ch, payload); err != nil {
							errs <- err.Error()
							return
						}
					}
					for i := 0; i < bn; i++ {
						if v, err := c.Recv(); err != nil || v.Kind != ':' {
							errs <- fmt.Sprintf("PUBLISH reply: %v %v", v, err)
							return
						}
					}
				}
			}(pi, batches)
		}
	}
	startWriters := func() {
		for wi, bursts := range p.Writers {
			wg.Add(1)
			c := dial(e.leader)
			go func(wi int, bursts []fwBurst) {
				defer wg.Done()
				seq := (wi + 1) * 100000
				for _, b := range bursts {
					var cmds [][]string
					for i := 0; i < b.N; i++ {
						seq++
						if b.Size == 0 {
							cmds = append(cmds, []string{"SET", key, fmt.Sprintf("o%d", i%3), "POINT", fmt.Sprintf("%.6f", float64(seq)*1e-6), strconv.Itoa(seq % 8)})
						} else {
							cmds = append(cmds, []string{"SET", key, fmt.Sprintf("s%d", i%4), "STRING", strings.Repeat(string(rune('a'+seq%26)), b.Size)})
						}
					}
					if b.Pipe {
						for _, cmd := range cmds {
							if err := c.Send(cmd...); err != nil {
								errs <- err.Error()
								return
							}
						}
						for range cmds {
							if v, err := c.Recv(); err != nil || v.IsErr() {
								errs <- fmt.Sprintf("SET reply: %v %v", v, err)
								return
							}
						}
					} else {
						for _, cmd := range cmds {
							if v, err := c.Do(cmd...); err != nil || v.IsErr() {
								errs <- fmt.Sprintf("SET reply: %v %v", v, err)
								return
							}
						}
					}
				}
			}(wi, bursts)
		}
	}
	if p.Phased {
		startWriters()
		wg.Wait()
		if !e.waitCaughtUp(20 * time.Second) {
			o.inconclusive = "follower did not catch up with the writers' log within 20 s"
			return o
		}
		startPubs()
		wg.Wait()
	} else {
		startPubs()
		startWriters()
		wg.Wait()
	}
	select {
	case msg := <-errs:
		o.fail("command-failed", "leader traffic: %s", msg)
		return o
	default:
	}
	close(stopChurn)
	select {
	case <-churnDone:
	case <-time.After(t38.ReplyTimeout):
	}
	if v, err := e.lctl.Do("PUBLISH", ch, endPayload); err != nil || v.Kind != ':' {
		o.fail("command-failed", "PUBLISH sentinel: %v %v", v, err)
		return o
	}
	// the follower's subscribers see the sentinel, or do not within the budget;
	// the wait ends early when the replication connection was dropped (then
	// the sentinel cannot arrive any more)
	complete := true
	deadline := time.Now().Add(t38.ReplyTimeout)
	for i, s := range subs {
	wait:
		for {
			select {
			case <-s.done:
				break wait
			case <-time.After(50 * time.Millisecond):
			}
			// (an older connection that is only now seen closing does not count:
			// only the link that was up when the case began, or a re-attachment)
			opened, activeClosed := e.px.replState()
			if opened > openedBefore || activeClosed || !time.Now().Before(deadline) {
				select {
				case <-s.done:
				case <-time.After(300 * time.Millisecond):
					complete = false
					o.hist("subscriber %d: no sentinel (replication link dropped or %v budget used)", i, t38.ReplyTimeout)
				}
				break wait
			}
		}
	}
	caught := e.waitCaughtUp(20 * time.Second)
	replConns, bad := e.px.verifyStreams()
	if replConns > replBefore {
		o.label("follower-reattached-during-case")
	}
	if bad != "" {
		o.fail(findingForwardTear, "the leader's byte stream towards the follower is not a sequence of whole commands (a forwarded PUBLISH was written into the middle of a logged command): %s", bad)
		return o
	}
	if !caught {
		if mon.MaxSince(t0) > time.Second {
			o.inconclusive = "follower not caught up 20 s after the case (test process stalled)"
		} else {
			o.fail("follower-not-caught-up", "follower did not return to caught_up with the leader's log size within 20 s after the traffic stopped (replication connections so far: %d)", replConns)
		}
		return o
	}
	// per subscriber: everything the publishers sent, exactly once, in each publisher's order
	total := 0
	for _, s := range sent {
		total += len(s)
	}
	for i, s := range subs {
		s.mu.Lock()
		got, end, serr := s.got, s.end, s.err
		s.mu.Unlock()
		where := "follower"
		if s.leader {
			where = "leader"
		}
		next := make([]int, len(sent))
		fenceN := 0
		for _, g := range got {
			if !strings.HasPrefix(g, "m|") {
				if _, _, ok := decodeFence(g); !ok {
					o.fail("unknown-message", "%s subscriber %d received %q", where, i, g)
					return o
				}
				fenceN++
				continue
			}
			var pi, k int
			fmt.Sscanf(g, "m|%d|%d", &pi, &k)
			if pi < 0 || pi >= len(sent) {
				o.fail("unknown-message", "%s subscriber %d received %q", where, i, g)
				return o
			}
			switch {
			case k == next[pi]:
				next[pi]++
			case k < next[pi]:
				o.fail("forwarded-duplicate-or-reordered", "%s subscriber %d (%s) received %s again or out of order (expected #%d of publisher %d next)", where, i, s.sub, g, next[pi], pi)
				return o
			default:
				key := "follower-subscriber-lost"
				if s.leader {
					key = "lost"
				}
				o.fail(key, "%s subscriber %d (%s), subscribed and acknowledged before any PUBLISH was sent, never received messages #%d..#%d of publisher %d (got #%d next); replication connections so far: %d",
					where, i, s.sub, next[pi], k-1, pi, k, replConns)
				return o
			}
		}
		for pi := range sent {
			if next[pi] != len(sent[pi]) || !end {
				key := "follower-subscriber-lost"
				if s.leader {
					key = "lost"
				}
				if !complete && mon.MaxSince(t0) > time.Second {
					o.inconclusive = fmt.Sprintf("%s subscriber %d incomplete but the test process was stalled", where, i)
					return o
				}
				o.fail(key, "%s subscriber %d (%s) received %d of %d messages of publisher %d, sentinel seen=%v, reader error %q; replication connections so far: %d",
					where, i, s.sub, next[pi], len(sent[pi]), pi, end, serr, replConns)
				return o
			}
		}
		if !s.leader {
			o.count("forwarded-messages-checked", total)
			o.count("forwarded-fence-notifications", fenceN)
		}
	}
	// evidence
	big, piped := false, false
	for _, w := range p.Writers {
		for _, b := range w {
			if b.Size > 8192 {
				big = true
			}
			if b.Pipe && b.N*(b.Size+60) > 8192 {
				piped = true
			}
		}
	}
	if big {
		o.label("logged-command-larger-than-a-stream-chunk")
	}
	if piped {
		o.label("pipelined-burst-larger-than-a-stream-chunk")
	}
	storm := false
	for _, b := range p.Pubs {
		for _, n := range b {
			if n >= 40 {
				storm = true
			}
		}
	}
	if storm {
		o.label("publish-storm")
	}
	if p.Fence != nil {
		o.label("forwarded-fence-notifications")
	}
	if storm && (big || piped || p.Phased) {
		o.ntKey = jsonStr(p)
	}
	return o
}

type fwReplay struct {
	Case    fwCase   `json:"case"`
	History []string `json:"observed_history,omitempty"`
}

// heavyFWCase is the deterministic probe shape of findingForwardTear.
func heavyFWCase() fwCase {
	return fwCase{NSubs: 1, LeaderSub: "same", Pubs: [][]int{{600, 600, 600}, {600, 600}},
		Writers: [][]fwBurst{{{N: 40, Size: 60000, Pipe: true}, {N: 40, Size: 60000, Pipe: true}}}}
}

func TestC10_FollowerForward(t *testing.T) {
	c := ev.New("C10", "follower", "exploration")
	t.Cleanup(c.Flush)
	c.Rule("a leader and a caught-up follower (both in-process, the follower attached through a capturing TCP proxy); 1-2 subscribers on the follower (SUBSCRIBE / PSUBSCRIBE), acknowledged before any traffic; the leader's own subscribers are a drawn dimension: nobody at all, one connection on an unrelated channel, one on the same channels (checked like the others), or one that keeps subscribing and unsubscribing (same or unrelated channel) while the traffic runs; on the leader 1-2 publishers send pipelined PUBLISH batches of 1-600 while 1-2 writers send bursts of 1-40 POINT writes (fence-triggering when a SETCHAN fence exists) or STRING values of 10 B-60 KB, mostly pipelined. Oracle: (1) at quiescence every byte the leader sent on every follower connection parses as whole RESP values (the replication stream is never torn by forwarded PUBLISH frames), (2) the follower returns to caught_up, (3) every subscriber received every PUBLISH exactly once in per-publisher order before the sentinel. Non-trivial: a pipelined batch of at least 40 PUBLISHes runs while a writer logs a command or pipelined burst larger than the 8 KB chunk the log tail is streamed in (while that shape is excluded as a known finding: a batch of at least 40 PUBLISHes is forwarded over a link that just carried the writers' log); distinct by generated case.")
	c.Assume("forwarding to followers is best effort while the replication link is down; the check only demands delivery while the link is up, which it always is unless the server itself drops it")
	env, err := startFW()
	if err != nil {
		t.Fatalf("cannot start leader/follower: %v", err)
	}
	defer func() { env.stop() }()
	started := time.Now()
	budget := time.Duration(ev.Pick(120, 900)) * time.Second
	restarts := 0
	// ready makes sure the pair is caught up before a case; a follower that
	// does not get there within 20 s (e.g. after the known finding tore its
	// stream) is replaced by a fresh pair.
	ready := func() bool {
		for {
			if env.waitCaughtUp(20 * time.Second) {
				return true
			}
			restarts++
			c.Label("pair-restarted:follower-not-caught-up")
			if restarts > 5 {
				return false
			}
			env.stop()
			var err error
			if env, err = startFW(); err != nil {
				t.Fatalf("cannot restart leader/follower: %v", err)
			}
		}
	}
	gentle := ev.KnownActive(findingForwardTear)
	if gentle {
		c.Excluded(findingForwardTear)
		// deterministic probe: the heavy shape, repeated until it reproduces
		for i := 0; i < ev.Pick(15, 40) && ready(); i++ {
			o := runFollowerCase(env, heavyFWCase())
			c.Label("probe-outcome:" + o.key + map[bool]string{true: "inconclusive", false: ""}[o.inconclusive != ""])
			if o.key == findingForwardTear {
				c.Known(findingForwardTear, o.what)
				break
			}
			if o.key == "follower-subscriber-lost" && o.labels["follower-reattached-during-case"] {
				// the heavy shape exists to provoke link drops; a loss across a
				// re-attachment whose capture parsed cleanly is not attributed
				continue
			}
			if o.key != "" {
				// not the listed finding: report it
				c.Violation(o.key, "heavy probe shape: "+o.what, fwReplay{Case: heavyFWCase(), History: o.history})
				t.Fatalf("VIOLATION-CANDIDATE key=%s: %s", o.key, o.what)
			}
		}
	}
	skipped := false
	ev.Rapid("follower", ev.Pick(25, 300))
	rapid.Check(t, func(rt *rapid.T) {
		p := drawFWCase(rt, gentle)
		if skipped || time.Since(started) > budget || !ready() {
			if !skipped {
				skipped = true
				c.Inconclusive("follower sub-check stopped early after %v (%d pair restarts): time budget %v", time.Since(started).Round(time.Second), restarts, budget)
			}
			c.Label("skipped:time-budget")
			return
		}
		c.Case()
		o := runFollowerCase(env, p)
		applyOutcome(c, o)
		if o.key != "" {
			c.Fail(rt, o.key, o.what, fwReplay{Case: p, History: o.history})
		}
		if o.ntKey != "" && c.WantSample() {
			c.Sample(map[string]any{"case": p, "labels": sortedKeys(o.labels)})
		}
	})
}

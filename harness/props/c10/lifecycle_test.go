package c10

import (
	"encoding/json"
	"fmt"
	"strings"
	"sync"
	"sync/atomic"
	"testing"
	"time"

	"github.com/tidwall/tile38/verif/harness/ev"
	"github.com/tidwall/tile38/verif/harness/t38"
	"pgregory.net/rapid"
)

// Hook life cycles: a hook name is used by several successive definitions
// ("generations"), each with its own collection, fence and endpoint; a
// generation ends by DELHOOK, PDELHOOK, FLUSHDB or by its EX expiry, possibly
// while its endpoint is failing and notifications are queued for it.
//
// Oracle: every request an endpoint receives is a notification of a write
// that matched the definition the endpoint was configured in (right
// collection, an object of that generation), a healthy generation receives
// the notifications of all its acknowledged writes exactly once and in
// order, and nothing that was queued for an ended generation ever reaches a
// later one.

const findingNamesake = "delhook-leaves-queue-to-namesake"

type lcGen struct {
	Name    int    `json:"name"`    // index of the hook name
	Down    string `json:"down"`    // "" healthy | 500 | reset | refuse: how this generation's endpoint behaves
	Writes  int    `json:"writes"`  // acknowledged SETs entering its fence
	End     string `json:"end"`     // delhook | pdelhook | flushdb | expire | "" (stays to the end)
	Nearby  bool   `json:"nearby"`  // NEARBY instead of WITHIN
	SameKey bool   `json:"samekey"` // re-uses the collection of the previous generation of this name
}

type lcCase struct {
	Tails []int `json:"tails"` // name tails (index into hostileTail) of the hook names
	// Twin: the two names are equal inside JSON, they differ only in one byte
	// that is not valid UTF-8
	Twin bool    `json:"twin,omitempty"`
	Gens []lcGen `json:"gens"` // executed in this order
}

type lcRequest struct {
	Key, ID string
	Status  string
}

func lcBodies(ep *endpoint) []lcRequest {
	ep.mu.Lock()
	defer ep.mu.Unlock()
	out := make([]lcRequest, 0, len(ep.arrivals))
	for _, a := range ep.arrivals {
		var m struct {
			Key string `json:"key"`
			ID  string `json:"id"`
		}
		json.Unmarshal([]byte(a.Body), &m)
		out = append(out, lcRequest{Key: m.Key, ID: m.ID, Status: a.Action})
	}
	return out
}

// runLifecycle executes the generations one after the other on the shared
// server.
func runLifecycle(p lcCase) *outcome {
	o := &outcome{}
	n := caseSeq.Add(1)
	t0 := now()
	ctl := srv.MustDial()
	defer ctl.Close()
	names := make([]string, len(p.Tails))
	for i, t := range p.Tails {
		names[i] = fmt.Sprintf("lc%dh%d", n, i) + tailOf([]int{t}, 0)
		if p.Twin {
			names[i] = fmt.Sprintf("lc%dhT", n) + []string{"\xff", "\xfe"}[i%2]
		}
	}
	type genState struct {
		ep    *endpoint
		key   string
		alive bool
		ids   []string
	}
	gens := make([]*genState, len(p.Gens))
	var cnt atomic.Int64
	lastOfName := map[int]int{}
	defer func() {
		for _, g := range gens {
			if g != nil {
				g.ep.shut(true)
			}
		}
		for _, nm := range names {
			ctl.Do("DELHOOK", nm)
		}
		for _, g := range gens {
			if g != nil {
				ctl.Do("DROP", g.key)
			}
		}
	}()
	hookGone := func(name string) bool {
		deadline := time.Now().Add(10 * time.Second)
		for time.Now().Before(deadline) {
			v, err := ctl.Do("HOOKS", "*")
			if err != nil {
				return false
			}
			found := false
			for _, h := range v.Arr {
				if len(h.Arr) > 0 && h.Arr[0].Str == name {
					found = true
				}
			}
			if !found {
				return true
			}
			time.Sleep(20 * time.Millisecond)
		}
		return false
	}
	seq := 0
	for gi, g := range p.Gens {
		st := &genState{key: fmt.Sprintf("lc%dk%d", n, gi), alive: true}
		if prev, ok := lastOfName[g.Name]; ok && g.SameKey {
			st.key = gens[prev].key
		}
		ep, err := newEndpoint(nil, &cnt, fmt.Sprintf("/lc/%d", gi))
		if err != nil {
			o.inconclusive = "cannot create an endpoint: " + err.Error()
			return o
		}
		st.ep = ep
		gens[gi] = st
		if g.Down != "refuse" {
			ep.open()
		}
		if g.Down == "500" || g.Down == "reset" {
			ep.force = g.Down
		}
		args := []string{"SETHOOK", names[g.Name], ep.url()}
		if g.End == "expire" {
			args = append(args, "EX", "1")
		}
		if g.Nearby {
			args = append(args, "NEARBY", st.key, "FENCE", "DETECT", "enter", "POINT", "0", "1", "60000")
		} else {
			args = append(args, "WITHIN", st.key, "FENCE", "DETECT", "enter", "BOUNDS", "-1", "0.5", "1", "1.5")
		}
		if prev, ok := lastOfName[g.Name]; ok && gens[prev].alive {
			panic("harness self-check: generation started while its predecessor is alive")
		}
		if err := mustOK(ctl.Do(args...)); err != nil {
			o.fail("command-failed:sethook", "%s: %v", t38.CmdString(args), err)
			return o
		}
		lastOfName[g.Name] = gi
		// acknowledged writes entering the fence: one "enter" each
		c := srv.MustDial()
		for w := 0; w < g.Writes; w++ {
			seq++
			id := fmt.Sprintf("g%do%d", gi, w)
			st.ids = append(st.ids, id)
			c.Send("SET", st.key, id, "POINT", fmt.Sprintf("%.6f", float64(seq)*1e-6), "1")
		}
		for w := 0; w < g.Writes; w++ {
			if v, err := c.RecvTimeout(2 * t38.ReplyTimeout); err != nil || v.IsErr() {
				c.Close()
				o.fail("command-failed:set", "SET: %v %v", v, err)
				return o
			}
		}
		c.Close()
		// a healthy generation has received everything before it may end
		if g.Down == "" {
			ep.mu.Lock()
			okAll := waitCond(ep.cond, time.Now().Add(t38.ReplyTimeout), func() bool { return len(ep.ok) >= g.Writes })
			ep.mu.Unlock()
			if !okAll {
				if mon.MaxSince(t0) > hangStallLimit {
					o.inconclusive = "healthy endpoint incomplete, test process stalled"
				} else {
					o.fail("webhook-stalled", "generation %d (healthy endpoint): %d of %d notifications arrived within %v", gi, len(lcBodies(ep)), g.Writes, t38.ReplyTimeout)
				}
				return o
			}
		}
		switch g.End {
		case "delhook":
			if v, err := ctl.Do("DELHOOK", names[g.Name]); err != nil || v.Int != 1 {
				o.fail("command-failed:delhook", "DELHOOK answered %v %v", v, err)
				return o
			}
			st.alive = false
		case "pdelhook":
			if p.Twin {
				// a pattern would hit the twin as well
				if v, err := ctl.Do("DELHOOK", names[g.Name]); err != nil || v.Int != 1 {
					o.fail("command-failed:delhook", "DELHOOK answered %v %v", v, err)
					return o
				}
				st.alive = false
				break
			}
			// the pattern is the name itself with every glob metacharacter and
			// every byte outside printable ASCII replaced by '?'... not expressible
			// for all tails, so delete by the common prefix of this case's names
			if _, err := ctl.Do("PDELHOOK", fmt.Sprintf("lc%dh%d*", n, g.Name)); err != nil {
				o.fail("command-failed:pdelhook", "%v", err)
				return o
			}
			st.alive = false
		case "flushdb":
			if err := mustOK(ctl.Do("FLUSHDB")); err != nil {
				o.fail("command-failed:flushdb", "%v", err)
				return o
			}
			for _, og := range gens {
				if og != nil {
					og.alive = false
				}
			}
		case "expire":
			st.alive = false
		}
		if !st.alive && !hookGone(names[g.Name]) {
			if mon.MaxSince(t0) > time.Second {
				o.inconclusive = "hook still listed 10 s after its end (test process stalled)"
			} else {
				o.fail("hook-not-removed", "generation %d: hook %q is still listed 10 s after %s", gi, names[g.Name], g.End)
			}
			return o
		}
		if g.End != "" {
			o.label("generation-ended-by:" + g.End)
			if g.Down != "" && g.Writes > 0 {
				o.label("ended-with-queued-notifications:" + g.End)
			}
		}
	}
	// closing: every generation that is still alive and healthy gets one more
	// write; deliveries are in queue order, so whatever was (wrongly) waiting
	// for it arrives before this one
	for gi, st := range gens {
		g := p.Gens[gi]
		if !st.alive || g.Down != "" {
			continue
		}
		seq++
		id := fmt.Sprintf("g%dend", gi)
		st.ids = append(st.ids, id)
		if err := mustOK(ctl.Do("SET", st.key, id, "POINT", fmt.Sprintf("%.6f", float64(seq)*1e-6), "1")); err != nil {
			o.fail("command-failed:set", "closing SET: %v", err)
			return o
		}
		want := len(st.ids)
		st.ep.mu.Lock()
		done := waitCond(st.ep.cond, time.Now().Add(t38.ReplyTimeout), func() bool {
			for _, b := range st.ep.ok {
				if strings.Contains(b, `"`+id+`"`) {
					return true
				}
			}
			return len(st.ep.ok) >= want+5
		})
		st.ep.mu.Unlock()
		if !done {
			if mon.MaxSince(t0) > hangStallLimit {
				o.inconclusive = "closing notification did not arrive, test process stalled"
			} else {
				o.fail("webhook-stalled", "generation %d: the closing notification did not arrive within %v", gi, t38.ReplyTimeout)
			}
			return o
		}
	}
	// oracle
	for gi, st := range gens {
		g := p.Gens[gi]
		reqs := lcBodies(st.ep)
		o.hist("generation %d name=%q key=%s down=%q end=%q writes=%d -> requests %v", gi, names[g.Name], st.key, g.Down, g.End, g.Writes, reqs)
		own := map[string]bool{}
		for _, id := range st.ids {
			own[id] = true
		}
		next := 0
		for ri, r := range reqs {
			if r.Key != st.key || !own[r.ID] {
				key := "foreign-notification"
				if prevName(p, gi) >= 0 {
					key = findingNamesake
				}
				if p.Twin && !strings.HasPrefix(r.ID, "g") {
					key = "foreign-notification"
				} else if p.Twin {
					// attribute by the generation the object belongs to
					var og int
					fmt.Sscanf(r.ID, "g%d", &og)
					if og >= 0 && og < len(p.Gens) && p.Gens[og].Name != g.Name {
						key = findingSharedQueue
					}
				}
				o.fail(key, "the endpoint of generation %d (hook %q on %s) received request #%d with key=%q id=%q: not a notification of a write its definition matched (earlier generations of this name: %v)",
					gi, names[g.Name], st.key, ri, r.Key, r.ID, prevGens(p, gi))
				return o
			}
			if r.Status != "ok" {
				continue
			}
			if g.Down == "" {
				if next >= len(st.ids) || r.ID != st.ids[next] {
					o.fail("webhook-order", "generation %d: request #%d answered 200 carries %s, expected %v next (lost, duplicated or reordered)", gi, ri, r.ID, st.ids[min(next, len(st.ids)-1)])
					return o
				}
				next++
			}
		}
		if g.Down == "" && next != len(st.ids) {
			o.fail("webhook-lost", "generation %d (healthy): %d of %d notifications answered 200", gi, next, len(st.ids))
			return o
		}
		o.count("requests-checked", len(reqs))
	}
	reuse := 0
	for gi := range p.Gens {
		if pg := prevName(p, gi); pg >= 0 && p.Gens[pg].Down != "" && p.Gens[pg].Writes > 0 && p.Gens[gi].Down == "" {
			reuse++
		}
	}
	if reuse > 0 {
		o.label("name-reused-after-a-generation-with-queued-notifications")
		o.ntKey = jsonStr(p)
	}
	return o
}

func prevName(p lcCase, gi int) int {
	for j := gi - 1; j >= 0; j-- {
		if p.Gens[j].Name == p.Gens[gi].Name {
			return j
		}
	}
	return -1
}

func prevGens(p lcCase, gi int) []int {
	var out []int
	for j := 0; j < gi; j++ {
		if p.Gens[j].Name == p.Gens[gi].Name {
			out = append(out, j)
		}
	}
	return out
}

func drawLCCase(rt *rapid.T) lcCase {
	var p lcCase
	nn := rapid.IntRange(1, 2).Draw(rt, "nnames")
	for i := 0; i < nn; i++ {
		p.Tails = append(p.Tails, drawTail(rt, "tail", allowInvalidNames))
	}
	if nn == 2 && allowInvalidNames && rapid.IntRange(0, 3).Draw(rt, "twin") == 0 {
		p.Twin = true
	}
	ng := rapid.IntRange(2, 5).Draw(rt, "ngens")
	alive := map[int]bool{}
	for i := 0; i < ng; i++ {
		g := lcGen{Name: rapid.IntRange(0, nn-1).Draw(rt, "name")}
		if alive[g.Name] {
			// the name is in use by a generation that stays: take the other name or skip
			g.Name = (g.Name + 1) % nn
			if alive[g.Name] {
				break
			}
		}
		g.Down = rapid.SampledFrom([]string{"", "", "500", "reset", "refuse"}).Draw(rt, "down")
		g.Writes = rapid.IntRange(0, 6).Draw(rt, "writes")
		g.End = rapid.SampledFrom([]string{"delhook", "delhook", "pdelhook", "flushdb", "expire", ""}).Draw(rt, "end")
		g.Nearby = rapid.Bool().Draw(rt, "nearby")
		g.SameKey = rapid.IntRange(0, 3).Draw(rt, "samekey") == 0
		if i == ng-1 || g.End == "" {
			// the last user of a name is healthy, so that the oracle can bound its stream
			g.End, g.Down = "", ""
			alive[g.Name] = true
		}
		if g.End == "flushdb" {
			for k := range alive {
				delete(alive, k)
			}
		}
		p.Gens = append(p.Gens, g)
	}
	return p
}

// namesakeProbe is the deterministic history of findingNamesake for one way
// of ending the first generation.
func namesakeProbe(end string) lcCase {
	return lcCase{Tails: []int{0}, Gens: []lcGen{
		{Name: 0, Down: "refuse", Writes: 3, End: end, Nearby: true},
		{Name: 0, Down: "", Writes: 0, End: ""},
	}}
}

const findingReplace = "hook-replace-reorders-deliveries"

// replaceProbe: a hook is re-defined (same name, same endpoint, same fence,
// only META differs) while its sender is in the middle of a batch; the
// endpoint answers 200 after 300 ms. Returns the ids in arrival order.
func replaceProbe() ([]string, error) {
	n := caseSeq.Add(1)
	key, h := fmt.Sprintf("rpk%d", n), fmt.Sprintf("rph%d", n)
	ctl := srv.MustDial()
	defer ctl.Close()
	var cnt atomic.Int64
	var script []epAction
	for i := 0; i < 12; i++ {
		script = append(script, epAction{Kind: "ok", DelayMs: 300})
	}
	ep, err := newEndpoint(script, &cnt, "/rp")
	if err != nil {
		return nil, err
	}
	ep.open()
	defer ep.shut(true)
	defer ctl.Do("DROP", key)
	defer ctl.Do("DELHOOK", h)
	fence := []string{"WITHIN", key, "FENCE", "DETECT", "enter", "BOUNDS", "-1", "0.5", "1", "1.5"}
	if err := mustOK(ctl.Do(append([]string{"SETHOOK", h, ep.url()}, fence...)...)); err != nil {
		return nil, err
	}
	w := srv.MustDial()
	defer w.Close()
	for i := 1; i <= 4; i++ {
		w.Send("SET", key, fmt.Sprintf("m%d", i), "POINT", "0", "1")
	}
	for i := 1; i <= 4; i++ {
		if _, err := w.Recv(); err != nil {
			return nil, err
		}
	}
	// wait until the first request is being handled: the sender is inside its batch
	ep.mu.Lock()
	started := waitCond(ep.cond, time.Now().Add(t38.ReplyTimeout), func() bool { return len(ep.arrivals) >= 1 })
	ep.mu.Unlock()
	if !started {
		return nil, fmt.Errorf("no request within %v", t38.ReplyTimeout)
	}
	if err := mustOK(ctl.Do(append([]string{"SETHOOK", h, ep.url(), "META", "v", "2"}, fence...)...)); err != nil {
		return nil, err
	}
	if err := mustOK(ctl.Do("SET", key, "m5", "POINT", "0", "1")); err != nil {
		return nil, err
	}
	ep.mu.Lock()
	waitCond(ep.cond, time.Now().Add(10*time.Second), func() bool { return len(ep.ok) >= 5 })
	ep.mu.Unlock()
	time.Sleep(400 * time.Millisecond) // a late duplicate would still be in its 300 ms handler
	var ids []string
	for _, r := range lcBodies(ep) {
		ids = append(ids, r.ID)
	}
	return ids, nil
}

// ---- re-definition histories ---------------------------------------------------
//
// One hook name is re-defined (SETHOOK over the existing name) again and again
// while notifications are queued for it and while one is being sent: other
// META, other fence command, other endpoint list — or the same endpoint. The
// new definition takes over the queue of the old one; there must never be two
// senders for the name.

type rdStep struct {
	Kind   string `json:"k"`              // write | redefine
	N      int    `json:"n,omitempty"`    // write: number of pipelined SETs (fresh objects entering: one notification each)
	When   string `json:"when,omitempty"` // redefine: inflight (right after a request arrived at an endpoint) | queued (at once) | idle (after everything was delivered)
	Meta   int    `json:"meta,omitempty"`
	Fence  int    `json:"fence,omitempty"` // 0 WITHIN, 1 INTERSECTS, 2 NEARBY
	EPList int    `json:"eps,omitempty"`   // 0: E1, 1: E2, 2: E1,E2, 3: E2,E1
}

type rdCase struct {
	Tail    int           `json:"tail"`
	Scripts [2][]epAction `json:"scripts"` // per endpoint, one action per arriving request, afterwards ok
	First   rdStep        `json:"first"`   // the initial definition
	Steps   []rdStep      `json:"steps"`
}

func drawRDCase(rt *rapid.T) rdCase {
	var p rdCase
	p.Tail = drawTail(rt, "tail", allowInvalidNames)
	fails := 0
	for e := 0; e < 2; e++ {
		n := rapid.IntRange(4, 14).Draw(rt, "nscript")
		for i := 0; i < n; i++ {
			a := epAction{Kind: "ok", DelayMs: rapid.SampledFrom([]int{0, 20, 60, 150, 300}).Draw(rt, "delay")}
			if fails < 3 && rapid.IntRange(0, 5).Draw(rt, "fail") == 0 {
				// the message in flight fails: its batch goes back into the queue
				a.Kind = rapid.SampledFrom([]string{"500", "reset"}).Draw(rt, "failkind")
				a.DelayMs = rapid.SampledFrom([]int{40, 120}).Draw(rt, "faildelay")
				fails++
			}
			p.Scripts[e] = append(p.Scripts[e], a)
		}
	}
	def := func(label string) rdStep {
		return rdStep{Kind: "redefine",
			When:   rapid.SampledFrom([]string{"inflight", "inflight", "queued", "idle"}).Draw(rt, label+"when"),
			Meta:   rapid.IntRange(0, 3).Draw(rt, label+"meta"),
			Fence:  rapid.IntRange(0, 2).Draw(rt, label+"fence"),
			EPList: rapid.SampledFrom([]int{0, 0, 0, 1, 2, 3}).Draw(rt, label+"eps")}
	}
	p.First = def("first")
	ns := rapid.IntRange(3, 8).Draw(rt, "nsteps")
	for i := 0; i < ns; i++ {
		if i%2 == 0 {
			p.Steps = append(p.Steps, rdStep{Kind: "write", N: rapid.IntRange(1, 5).Draw(rt, "n")})
		} else {
			p.Steps = append(p.Steps, def("re"))
		}
	}
	return p
}

type rdArrival struct {
	T      int64
	EP     int
	ID     string
	Status string
}

func runRedefine(p rdCase) *outcome {
	o := &outcome{}
	n := caseSeq.Add(1)
	t0 := now()
	key := fmt.Sprintf("rdk%d", n)
	name := fmt.Sprintf("rdh%d", n) + tailOf([]int{p.Tail}, 0)
	ctl := srv.MustDial()
	defer ctl.Close()
	var cnt atomic.Int64
	var eps [2]*endpoint
	for e := range eps {
		ep, err := newEndpoint(p.Scripts[e], &cnt, fmt.Sprintf("/rd/%d", e))
		if err != nil {
			o.inconclusive = "cannot create an endpoint: " + err.Error()
			return o
		}
		ep.open()
		eps[e] = ep
		defer ep.shut(true)
	}
	defer ctl.Do("DROP", key)
	defer ctl.Do("DELHOOK", name)
	define := func(d rdStep) error {
		urls := [][]int{{0}, {1}, {0, 1}, {1, 0}}[d.EPList%4]
		var list []string
		for _, e := range urls {
			list = append(list, eps[e].url())
		}
		args := []string{"SETHOOK", name, strings.Join(list, ",")}
		if d.Meta > 0 {
			args = append(args, "META", "v", fmt.Sprint(d.Meta))
		}
		switch d.Fence {
		case 0:
			args = append(args, "WITHIN", key, "FENCE", "DETECT", "enter", "BOUNDS", "-1", "0.5", "1", "1.5")
		case 1:
			args = append(args, "INTERSECTS", key, "FENCE", "DETECT", "enter", "BOUNDS", "-1", "0.5", "1", "1.5")
		default:
			args = append(args, "NEARBY", key, "FENCE", "DETECT", "enter", "POINT", "0", "1", "60000")
		}
		v, err := ctl.Do(args...)
		if err != nil || v.IsErr() {
			return fmt.Errorf("%s: %v %v", t38.CmdString(args), v, err)
		}
		return nil
	}
	arrivalsTotal := func() int {
		t := 0
		for _, ep := range eps {
			ep.mu.Lock()
			t += len(ep.arrivals)
			ep.mu.Unlock()
		}
		return t
	}
	okTotal := func() int {
		t := 0
		for _, ep := range eps {
			ep.mu.Lock()
			t += len(ep.ok)
			ep.mu.Unlock()
		}
		return t
	}
	if err := define(p.First); err != nil {
		o.fail("command-failed:sethook", "%v", err)
		return o
	}
	var want []string
	w := srv.MustDial()
	defer w.Close()
	for si, st := range p.Steps {
		switch st.Kind {
		case "write":
			first := len(want)
			for i := 0; i < st.N; i++ {
				id := fmt.Sprintf("m%03d", len(want)+1)
				want = append(want, id)
				w.Send("SET", key, id, "POINT", fmt.Sprintf("%.6f", float64(len(want))*1e-6), "1")
			}
			for i := first; i < len(want); i++ {
				if v, err := w.RecvTimeout(2 * t38.ReplyTimeout); err != nil || v.IsErr() {
					o.fail("command-failed:set", "SET: %v %v", v, err)
					return o
				}
			}
		case "redefine":
			switch st.When {
			case "inflight":
				// wait (bounded) for the next request to arrive somewhere: the sender
				// is then inside a batch; if everything has been delivered already
				// this is just a re-definition of an idle hook
				base := arrivalsTotal()
				deadline := time.Now().Add(2 * time.Second)
				for arrivalsTotal() == base && okTotal() < len(want) && time.Now().Before(deadline) {
					time.Sleep(200 * time.Microsecond)
				}
				if arrivalsTotal() > base {
					o.label("redefined-while-a-send-was-in-flight")
				}
			case "idle":
				deadline := time.Now().Add(t38.ReplyTimeout)
				for okTotal() < len(want) && time.Now().Before(deadline) {
					time.Sleep(time.Millisecond)
				}
			default:
				if okTotal() < len(want) {
					o.label("redefined-with-a-non-empty-queue")
				}
			}
			if err := define(st); err != nil {
				o.fail("command-failed:sethook", "step %d: %v", si, err)
				return o
			}
		}
	}
	// closing write: queue order bounds the stream
	end := fmt.Sprintf("m%03d", len(want)+1)
	want = append(want, end)
	if err := mustOK(ctl.Do("SET", key, end, "POINT", fmt.Sprintf("%.6f", float64(len(want))*1e-6), "1")); err != nil {
		o.fail("command-failed:set", "closing SET: %v", err)
		return o
	}
	deadline := time.Now().Add(t38.ReplyTimeout)
	sawEnd := func() bool {
		for _, ep := range eps {
			ep.mu.Lock()
			for _, b := range ep.ok {
				if strings.Contains(b, `"`+end+`"`) {
					ep.mu.Unlock()
					return true
				}
			}
			ep.mu.Unlock()
		}
		return false
	}
	for !sawEnd() && time.Now().Before(deadline) {
		time.Sleep(2 * time.Millisecond)
	}
	complete := sawEnd()
	// a duplicate sent by a second sender would still be on its way
	time.Sleep(50 * time.Millisecond)
	var all []rdArrival
	failed := 0
	for e, ep := range eps {
		ep.mu.Lock()
		for _, a := range ep.arrivals {
			var m struct {
				ID string `json:"id"`
			}
			json.Unmarshal([]byte(a.Body), &m)
			all = append(all, rdArrival{T: a.T, EP: e, ID: m.ID, Status: a.Action})
			if a.Action != "ok" {
				failed++
			}
		}
		ep.mu.Unlock()
	}
	for _, a := range all {
		o.hist("t=%dms endpoint %d %s %s", (a.T-t0)/1e6, a.EP, a.ID, a.Status)
	}
	stalled := mon.MaxSince(t0) > time.Second
	bad := func(format string, a ...any) *outcome {
		what := fmt.Sprintf(format, a...)
		if stalled {
			o.inconclusive = what + " (test process stalled)"
		} else {
			o.fail(findingReplace, "%s", what)
		}
		return o
	}
	if !complete {
		if mon.MaxSince(t0) > hangStallLimit {
			o.inconclusive = "closing notification not delivered, test process stalled"
			return o
		}
		return bad("hook %q re-defined %d times: the closing notification %s was not answered 200 within %v (%d of %d delivered)", name, len(p.Steps)/2, end, t38.ReplyTimeout, okTotal(), len(want))
	}
	seen := map[string]int{}
	lastAt := [2]string{}
	for e, ep := range eps {
		ep.mu.Lock()
		oks := append([]string{}, ep.ok...)
		ep.mu.Unlock()
		for _, b := range oks {
			var m struct {
				ID string `json:"id"`
			}
			json.Unmarshal([]byte(b), &m)
			seen[m.ID]++
			if seen[m.ID] > 1 {
				return bad("hook %q: notification %s was answered 200 twice (re-definitions: two senders for one name)", name, m.ID)
			}
			if m.ID < lastAt[e] {
				return bad("hook %q: endpoint %d was given %s after %s — deliveries out of write order across a re-definition", name, e, m.ID, lastAt[e])
			}
			lastAt[e] = m.ID
		}
	}
	for _, id := range want {
		if seen[id] != 1 {
			return bad("hook %q: notification %s of an acknowledged write was never answered 200 although the closing one was (lost across a re-definition)", name, id)
		}
	}
	o.count("notifications-delivered-200", len(want))
	if failed > 0 {
		o.label("in-flight-message-failed-and-was-requeued")
	}
	if o.labels["redefined-while-a-send-was-in-flight"] || o.labels["redefined-with-a-non-empty-queue"] {
		o.ntKey = jsonStr(p)
	}
	return o
}

// requeueProbe: the message in flight at the moment of the re-definition
// fails (500 after 150 ms); the batch must be delivered by the successor.
func requeueProbe() rdCase {
	return rdCase{
		Scripts: [2][]epAction{{{Kind: "ok", DelayMs: 100}, {Kind: "500", DelayMs: 150}, {Kind: "ok", DelayMs: 50}}, nil},
		First:   rdStep{Kind: "redefine"},
		Steps: []rdStep{{Kind: "write", N: 4}, {Kind: "redefine", When: "inflight", Meta: 1}, {Kind: "write", N: 1},
			{Kind: "redefine", When: "inflight", Meta: 2}, {Kind: "write", N: 2}},
	}
}

type rdReplay struct {
	Case    rdCase   `json:"case"`
	History []string `json:"observed_history,omitempty"`
}

type lcReplay struct {
	Case    lcCase   `json:"case"`
	History []string `json:"observed_history,omitempty"`
}

func TestC10_HookLifecycle(t *testing.T) {
	c := ev.New("C10", "hook-lifecycle", "exploration")
	t.Cleanup(c.Flush)
	c.Rule("hook life cycles on the shared server: 1-2 hook names (hostile name tails included), 2-5 successive generations; each generation is a SETHOOK of one of the names with its own endpoint (healthy, answering 500, resetting, or refusing connections), its own or the previous generation's collection, WITHIN or NEARBY with DETECT enter, 0-6 acknowledged SETs of fresh objects entering the fence (one notification each), and ends by DELHOOK, PDELHOOK, FLUSHDB or EX 1 expiry, or stays; the last user of a name is healthy and gets a closing write. Deterministic probes first: a refusing generation with 3 queued notifications ended by each of the four ways, then the name re-used by a healthy generation on another collection. Oracle: every request an endpoint receives (whatever it answers) carries the collection and an object of its own generation; a healthy generation is answered 200 for all its writes exactly once in order. Re-definition histories: one hook name re-defined 1-4 times (other META, other fence command, other endpoint list out of two endpoints, or the same endpoint again) between bursts of 1-5 pipelined notifying SETs, at once (queue non-empty), right after a request arrived at an endpoint (send in flight) or when idle; the endpoints answer 200 after 0-300 ms and fail up to 3 of the messages in flight (500 / reset), whose batch must be delivered by the successor; oracle: every notification answered 200 exactly once over both endpoints, per endpoint in write order, closing notification bounds the stream. Non-trivial: a name is re-used by a healthy generation after a generation that ended with queued notifications, or a hook was re-defined with a non-empty queue / a send in flight; distinct by generated case.")
	for _, end := range []string{"delhook", "pdelhook", "flushdb", "expire"} {
		p := namesakeProbe(end)
		c.Case()
		o := runLifecycle(p)
		applyOutcome(c, o)
		if o.key != "" {
			if ev.KnownActive(o.key) {
				c.Known(o.key, o.what)
				continue
			}
			c.Violation(o.key, "probe ("+end+"): "+o.what, lcReplay{Case: p, History: o.history})
			t.Errorf("VIOLATION-CANDIDATE key=%s: %s", o.key, o.what)
		}
	}
	// candidate / regression: re-definition of a hook while its sender is busy
	{
		c.Case()
		start := now()
		ids, err := replaceProbe()
		got := strings.Join(ids, ",")
		what := fmt.Sprintf("SETHOOK h E; SET m1..m4 (pipelined, acknowledged); while E is handling the first request: SETHOOK h E META v 2 (same fence); SET m5 -> E received %s, expected m1,m2,m3,m4,m5", got)
		switch status := findingStatus(findingReplace); {
		case err != nil || mon.MaxSince(start) > time.Second:
			c.Inconclusive("hook replace probe: %v (stall %v)", err, mon.MaxSince(start))
		case got == "m1,m2,m3,m4,m5":
			c.Label("hook-replaced-mid-batch:order-kept")
		case status == "known":
			c.Known(findingReplace, what)
		case status == "fixed":
			c.Violation(findingReplace, what, map[string]any{"arrivals": ids})
			t.Errorf("VIOLATION-CANDIDATE key=%s: %s", findingReplace, what)
		default:
			// reported to the lead, not yet listed: evidence only
			c.Label("candidate:" + findingReplace + ":reproduces")
			c.Note("candidate %s reproduces: %s", findingReplace, what)
		}
	}
	// the requeue path, deterministic, and generated re-definition histories
	replaceStatus := findingStatus(findingReplace)
	report := func(o *outcome, data any, prefix string) {
		if o.key == "" {
			return
		}
		switch {
		case o.key == findingReplace && replaceStatus == "known":
			c.Known(findingReplace, prefix+o.what)
		case o.key == findingReplace && replaceStatus == "":
			c.Label("candidate:" + findingReplace + ":reproduces")
			c.Note("candidate %s reproduces: %s%s", findingReplace, prefix, o.what)
		default:
			c.Violation(o.key, prefix+o.what, data)
			t.Errorf("VIOLATION-CANDIDATE key=%s: %s", o.key, o.what)
		}
	}
	{
		p := requeueProbe()
		c.Case()
		o := runRedefine(p)
		applyOutcome(c, o)
		report(o, rdReplay{Case: p, History: o.history}, "requeue probe: ")
	}
	if t.Failed() {
		return
	}
	if replaceStatus == "known" {
		c.Excluded(findingReplace)
	} else {
		batch := 4
		ev.Rapid("hook-redefine", ev.Pick(2, 30))
		rapid.Check(t, func(rt *rapid.T) {
			cases := make([]rdCase, batch)
			for i := range cases {
				cases[i] = drawRDCase(rt)
			}
			outs := make([]*outcome, batch)
			var wg sync.WaitGroup
			for i := range cases {
				wg.Add(1)
				go func(i int) {
					defer wg.Done()
					outs[i] = runRedefine(cases[i])
				}(i)
			}
			wg.Wait()
			for i, o := range outs {
				c.Case()
				applyOutcome(c, o)
				if o.ntKey != "" && c.WantSample() {
					c.Sample(map[string]any{"case": cases[i], "labels": sortedKeys(o.labels), "history": o.history})
				}
			}
			for i, o := range outs {
				if o.key == findingReplace && replaceStatus == "" {
					report(o, nil, "generated: ")
					continue
				}
				if o.key != "" {
					c.Fail(rt, o.key, o.what, rdReplay{Case: cases[i], History: o.history})
				}
			}
		})
	}
	if t.Failed() {
		return
	}
	ev.Rapid("hook-lifecycle", ev.Pick(8, 150))
	rapid.Check(t, func(rt *rapid.T) {
		p := drawLCCase(rt)
		c.Case()
		o := runLifecycle(p)
		applyOutcome(c, o)
		if o.key != "" {
			c.Fail(rt, o.key, o.what, lcReplay{Case: p, History: o.history})
		}
		if o.ntKey != "" && c.WantSample() {
			c.Sample(map[string]any{"case": p, "labels": sortedKeys(o.labels), "history": o.history})
		}
	})
}

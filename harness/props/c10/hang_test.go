package c10

import (
	"fmt"
	"net"
	"strings"
	"sync"
	"sync/atomic"
	"syscall"
	"testing"
	"time"

	"github.com/tidwall/tile38/verif/harness/ev"
	"github.com/tidwall/tile38/verif/harness/t38"
)

const findingHangFreezes = "hanging-endpoint-freezes-all-hooks"

// blackHole accepts TCP connections and never reads or answers.
type blackHole struct {
	ln    net.Listener
	mu    sync.Mutex
	conns []net.Conn
}

func newBlackHole() (*blackHole, error) {
	ln, err := net.Listen("tcp", "127.0.0.1:0")
	if err != nil {
		return nil, err
	}
	b := &blackHole{ln: ln}
	go func() {
		for {
			c, err := ln.Accept()
			if err != nil {
				return
			}
			b.mu.Lock()
			b.conns = append(b.conns, c)
			b.mu.Unlock()
		}
	}()
	return b, nil
}

func (b *blackHole) accepted() int {
	b.mu.Lock()
	defer b.mu.Unlock()
	return len(b.conns)
}

func (b *blackHole) close() {
	b.ln.Close()
	b.mu.Lock()
	for _, c := range b.conns {
		c.Close()
	}
	b.mu.Unlock()
}

// hangScenario: hook "bad" sends to a redis:// endpoint that accepts and never
// answers, hook "good" to a healthy HTTP endpoint on another collection. One
// acknowledged SET is routed to bad; after the endpoint manager's
// once-a-second housekeeping had time to run, n acknowledged SETs are routed
// to good. Returns what went wrong ("" = nothing) for the delivery part and
// for the shutdown part.
func hangScenario(scheme string, n int) (delivery, shutdown string, err error) {
	hole, err := newBlackHole()
	if err != nil {
		return "", "", err
	}
	defer hole.close()
	proc, err := t38.StartProc(t38.Opts{})
	if err != nil {
		return "", "", err
	}
	defer func() {
		if proc.Alive() {
			proc.Kill()
		}
	}()
	id := caseSeq.Add(1)
	ctl, err := t38.Dial(proc.Addr)
	if err != nil {
		return "", "", err
	}
	defer ctl.Close()
	var cnt atomic.Int64
	good, err := newEndpoint(nil, &cnt, "/good")
	if err != nil {
		return "", "", err
	}
	good.open()
	defer good.shut(true)
	keyBad, keyGood := fmt.Sprintf("hgb%d", id), fmt.Sprintf("hgg%d", id)
	fence := func(key string) []string {
		return []string{"WITHIN", key, "FENCE", "DETECT", "enter", "BOUNDS", "-1", "0.5", "1", "1.5"}
	}
	badURL := fmt.Sprintf("%s://%s/chan", scheme, hole.ln.Addr().String())
	if err := mustOK(ctl.Do(append([]string{"SETHOOK", "bad", badURL}, fence(keyBad)...)...)); err != nil {
		return "", "", fmt.Errorf("SETHOOK bad: %v", err)
	}
	if err := mustOK(ctl.Do(append([]string{"SETHOOK", "good", good.url()}, fence(keyGood)...)...)); err != nil {
		return "", "", fmt.Errorf("SETHOOK good: %v", err)
	}
	if err := mustOK(ctl.Do("SET", keyBad, "x", "POINT", "0", "1")); err != nil {
		return "", "", err
	}
	// the sender of bad is now inside a request nobody answers; give the
	// manager's once-a-second housekeeping time to meet it
	deadline := time.Now().Add(5 * time.Second)
	for hole.accepted() == 0 && time.Now().Before(deadline) {
		time.Sleep(20 * time.Millisecond)
	}
	if hole.accepted() == 0 {
		return "", "", fmt.Errorf("the server never connected to the %s endpoint", scheme)
	}
	time.Sleep(2500 * time.Millisecond)
	var want []string
	for i := 0; i < n; i++ {
		w := fmt.Sprintf("g%d", i)
		want = append(want, w)
		if err := mustOK(ctl.Do("SET", keyGood, w, "POINT", "0", "1")); err != nil {
			return "", "", err
		}
	}
	good.mu.Lock()
	all := waitCond(good.cond, time.Now().Add(10*time.Second), func() bool { return len(good.ok) >= n })
	good.mu.Unlock()
	reqs := lcBodies(good)
	if !all {
		delivery = fmt.Sprintf("hook good (healthy HTTP endpoint, collection %s) received %d of %d notifications within 10 s of their acknowledged writes while hook bad was waiting for a %s endpoint that accepts and never answers", keyGood, len(reqs), n, scheme)
	} else {
		for i, r := range reqs {
			if i >= n || r.Key != keyGood || r.ID != want[i] {
				delivery = fmt.Sprintf("hook good received %v, expected %v in order, once", reqs, want)
				break
			}
		}
	}
	// clean shutdown
	_, pid, perr := serverPending(ctl)
	if perr != nil || pid == 0 {
		return delivery, "", fmt.Errorf("SERVER: %v", perr)
	}
	syscall.Kill(pid, syscall.SIGTERM)
	for i := 0; i < 2000 && proc.Alive(); i++ {
		time.Sleep(10 * time.Millisecond)
	}
	if proc.Alive() {
		shutdown = fmt.Sprintf("the server was still running 20 s after SIGTERM while hook bad was waiting for a %s endpoint that accepts and never answers", scheme)
	}
	return delivery, shutdown, nil
}

func TestC10_HangingEndpoint(t *testing.T) {
	c := ev.New("C10", "hanging-endpoint", "fault_enumeration")
	t.Cleanup(c.Flush)
	c.Rule("deterministic probe on a subprocess server: hook bad -> redis://<listener that accepts and never answers> on collection A, hook good -> healthy HTTP endpoint on collection B; one acknowledged SET into A; 2.5 s later (the endpoint manager's once-a-second housekeeping has run) 5 acknowledged SETs into B. Oracle: good is answered 200 for its 5 notifications in order, once, within 10 s (on a correct server they are not delayed at all), and SIGTERM ends the server within 20 s. A failure is re-checked on a fresh server and reported only when it fails twice; quick runs redis, thorough also disque. Non-trivial by construction; distinct by endpoint scheme.")
	if t38.ServerBin() == "" {
		c.Inconclusive("VERIF_SERVER_BIN not set")
		t.Skip("no server binary")
	}
	schemes := []string{"redis"}
	if ev.Thorough() && ev.Shard() == 0 {
		schemes = append(schemes, "disque")
	}
	for _, scheme := range schemes {
		var first string
		for attempt := 0; attempt < 2; attempt++ {
			start := now()
			c.Case()
			c.NonTrivial(scheme)
			delivery, shutdown, err := hangScenario(scheme, 5)
			what := strings.TrimSpace(delivery + " " + shutdown)
			if err != nil {
				c.Inconclusive("hanging-endpoint probe (%s): %v", scheme, err)
				break
			}
			if what == "" {
				c.Label("good-hook-unaffected:" + scheme)
				break
			}
			if mon.MaxSince(start) > time.Second {
				c.Inconclusive("hanging-endpoint probe (%s): %s (test process stalled)", scheme, what)
				break
			}
			if attempt == 0 {
				first = what
				continue
			}
			if ev.KnownActive(findingHangFreezes) {
				c.Known(findingHangFreezes, what)
				break
			}
			c.Violation(findingHangFreezes, "twice in a row on fresh servers: "+what+" | first run: "+first,
				map[string]any{"how": "SETHOOK bad " + scheme + "://127.0.0.1:<black hole>/chan WITHIN A FENCE DETECT enter BOUNDS -1 0.5 1 1.5; SETHOOK good http://<healthy> WITHIN B ...; SET A x POINT 0 1; sleep 2.5 s; 5 x SET B gi POINT 0 1; SIGTERM"})
			t.Errorf("VIOLATION-CANDIDATE key=%s: %s", findingHangFreezes, what)
		}
	}
}

package c10

import (
	"encoding/json"
	"sync"
	"testing"

	"github.com/tidwall/tile38/verif/harness/ev"
	"pgregory.net/rapid"
)

type psReplay struct {
	Case    psCase   `json:"case"`
	History []string `json:"observed_history,omitempty"`
}

func TestC10_PubSub(t *testing.T) {
	c := ev.New("C10", "pubsub", "exploration")
	t.Cleanup(c.Flush)
	c.Rule("random concurrent histories on the real server: 1-4 publisher connections (PUBLISH on 1-3 plain channels and on fence channels, fence-triggering SETs of 3 objects over 0-2 SETCHAN fences with generated DETECT lists, partly pipelined), 1-6 subscriber connections running SUBSCRIBE/PSUBSCRIBE/UNSUBSCRIBE/PUNSUBSCRIBE programs over those channels and 0-3 '*'/'?' patterns, optionally one live fence connection opened mid-history; every send/receive instant is taken on the monotonic clock. Oracle: a subscription acknowledged before a message was sent and not cancelled before it was answered gets it exactly once; one certainly cancelled/not yet requested gets nothing; per-publisher order and append-only-file order (and the documented within-write order) hold on every stream; PUBLISH's integer lies between the certainly- and possibly-registered matching subscriptions, equals the number of copies actually delivered, and is exact once the subscription set is quiescent; sentinels bound every stream. Non-trivial: at least one message was published while a matching subscribe/unsubscribe of some connection was in flight; distinct by (generated programs, set of overlap classes observed).")
	c.Assume("fence notifications are identified by the unique latitude of the causing SET; which notifications a SET causes is computed by a small independent model of the documented enter/exit/inside/outside/cross rules on a 1-D grid (C05 checks those rules in depth)")
	c.Assume("a command pipelined behind the connection's first SUBSCRIBE in the same packet is outside this check (the first subscription is always awaited before the next command is sent)")
	maxOps := ev.Pick(12, 30)
	// Several live fences on one key evaluate their notifications under the
	// shared lock at the same time; see TestC10_RaceLiveFences.
	maxLives := 3
	if ev.KnownActive(findingLiveRace) {
		maxLives = 1
		c.Excluded(findingLiveRace)
	}
	ev.Rapid("pubsub", ev.Pick(900, 12000))
	rapid.Check(t, func(rt *rapid.T) {
		p := drawPSCase(rt, maxOps, maxLives)
		c.Case()
		o := runPubSub(p)
		applyOutcome(c, o)
		if o.key != "" {
			c.Fail(rt, o.key, o.what, psReplay{Case: p, History: o.history})
		}
		if o.ntKey != "" && c.WantSample() {
			c.Sample(map[string]any{"case": p, "labels": sortedKeys(o.labels)})
		}
	})
}

type whReplay struct {
	Case    whCase   `json:"case"`
	History []string `json:"observed_history,omitempty"`
}

func TestC10_Webhook(t *testing.T) {
	c := ev.New("C10", "webhook", "exploration")
	t.Cleanup(c.Flush)
	c.Rule("1-3 fences, each installed as SETHOOK to a local HTTP endpoint in the test process and as a twin SETCHAN with a subscriber (WITHIN/INTERSECTS/NEARBY, generated DETECT lists, optional META), on 1-3 keys; 1-4 writer connections send bursts (3-12, mostly pipelined) of SET/DEL/FSET/DROP; each endpoint consumes a generated script, one action per arriving request: answer 200 (optionally slowly), answer 500, reset the connection instead of answering, die while handling the request (no response, listener and connections closed, re-listen after 0-1200 ms), never answer (thorough only), or refuse connections from the start; total outage per hook below 2.5 s (quick) / 9 s (thorough). Oracle: the sequence of request bodies answered 200 equals the twin channel's sequence after removing hook and group (no unknown, no duplicate, no reordering, nothing missing once the closing notification was answered 200). Non-trivial: a failing request arrives directly after a 200 while at least 5 generated notifications are still undelivered (the failed message sits inside a batch, so the delete-send-reinsert path re-queues a tail); distinct by (fence kind, DETECT, META, sequence of failure kind/backlog class/position, hooks, keys).")
	c.Assume("a request counts as answered 200 when the handler wrote the status on a healthy connection; cases in which the test process itself was stalled (> 1 s scheduler lag, a 200 needing > 2 s, a case > 22 s) cannot distinguish a lost acknowledgement or an expired message from a defect and are recorded as inconclusive")
	// several independent cases run side by side in one rapid iteration: a case
	// spends most of its time waiting for the sender's 0.5 s retry pauses
	batch := 4
	ev.Rapid("webhook", ev.Pick(4, 30))
	rapid.Check(t, func(rt *rapid.T) {
		cases := make([]whCase, batch)
		for i := range cases {
			cases[i] = drawWHCase(rt, ev.Thorough())
		}
		outs := make([]*outcome, batch)
		var wg sync.WaitGroup
		for i := range cases {
			wg.Add(1)
			go func(i int) {
				defer wg.Done()
				outs[i] = runWebhook(cases[i])
			}(i)
		}
		wg.Wait()
		for i, o := range outs {
			c.Case()
			applyOutcome(c, o)
			if c.WantSample() {
				c.Sample(map[string]any{"case": cases[i], "labels": sortedKeys(o.labels), "history": o.history})
			}
		}
		for i, o := range outs {
			if o.key != "" {
				c.Fail(rt, o.key, o.what, whReplay{Case: cases[i], History: o.history})
			}
		}
	})
}

func TestReplay(t *testing.T) {
	doc, ok := ev.ReplayFile()
	if !ok {
		t.Skip("no replay file")
	}
	c := ev.New("C10", "replay", "exploration")
	t.Cleanup(c.Flush)
	switch doc.Check {
	case "pubsub":
		var r psReplay
		if err := json.Unmarshal(doc.Data, &r); err != nil {
			t.Fatalf("bad replay data: %v", err)
		}
		// schedule dependent: re-execute the same programs many times
		for i := 0; i < 200; i++ {
			c.Case()
			o := runPubSub(r.Case)
			applyOutcome(c, o)
			if o.key != "" {
				c.Violation(o.key, o.what, psReplay{Case: r.Case, History: o.history})
				t.Fatalf("VIOLATION-CANDIDATE key=%s: %s", o.key, o.what)
			}
		}
	case "webhook":
		var r whReplay
		if err := json.Unmarshal(doc.Data, &r); err != nil {
			t.Fatalf("bad replay data: %v", err)
		}
		for i := 0; i < 3; i++ {
			c.Case()
			o := runWebhook(r.Case)
			applyOutcome(c, o)
			if o.key != "" {
				c.Violation(o.key, o.what, whReplay{Case: r.Case, History: o.history})
				t.Fatalf("VIOLATION-CANDIDATE key=%s: %s", o.key, o.what)
			}
		}
	case "webhook-restart":
		var r rsReplay
		if err := json.Unmarshal(doc.Data, &r); err != nil {
			t.Fatalf("bad replay data: %v", err)
		}
		for i := 0; i < 3; i++ {
			c.Case()
			o := runRestart(r.Case)
			applyOutcome(c, o)
			if o.key != "" {
				c.Violation(o.key, o.what, rsReplay{Case: r.Case, History: o.history})
				t.Fatalf("VIOLATION-CANDIDATE key=%s: %s", o.key, o.what)
			}
		}
	case "hook-lifecycle":
		var rd rdReplay
		if json.Unmarshal(doc.Data, &rd) == nil && len(rd.Case.Steps) > 0 {
			for i := 0; i < 5; i++ {
				c.Case()
				o := runRedefine(rd.Case)
				applyOutcome(c, o)
				if o.key != "" {
					c.Violation(o.key, o.what, rdReplay{Case: rd.Case, History: o.history})
					t.Fatalf("VIOLATION-CANDIDATE key=%s: %s", o.key, o.what)
				}
			}
			return
		}
		var lc lcReplay
		if err := json.Unmarshal(doc.Data, &lc); err != nil {
			t.Fatalf("bad replay data: %v", err)
		}
		for i := 0; i < 3; i++ {
			c.Case()
			o := runLifecycle(lc.Case)
			applyOutcome(c, o)
			if o.key != "" {
				c.Violation(o.key, o.what, lcReplay{Case: lc.Case, History: o.history})
				t.Fatalf("VIOLATION-CANDIDATE key=%s: %s", o.key, o.what)
			}
		}
	case "webhook-burst":
		var r burstReplay
		if err := json.Unmarshal(doc.Data, &r); err != nil {
			t.Fatalf("bad replay data: %v", err)
		}
		for i := 0; i < 3; i++ {
			c.Case()
			o := runBurst(r.Case)
			applyOutcome(c, o)
			if o.key != "" {
				c.Violation(o.key, o.what, burstReplay{Case: r.Case, History: o.history})
				t.Fatalf("VIOLATION-CANDIDATE key=%s: %s", o.key, o.what)
			}
		}
	case "follower":
		var r fwReplay
		if err := json.Unmarshal(doc.Data, &r); err != nil {
			t.Fatalf("bad replay data: %v", err)
		}
		env, err := startFW()
		if err != nil {
			t.Fatalf("cannot start leader/follower: %v", err)
		}
		defer env.stop()
		for i := 0; i < 40; i++ {
			c.Case()
			o := runFollowerCase(env, r.Case)
			applyOutcome(c, o)
			if o.key != "" {
				c.Violation(o.key, o.what, fwReplay{Case: r.Case, History: o.history})
				t.Fatalf("VIOLATION-CANDIDATE key=%s: %s", o.key, o.what)
			}
		}
	case "race-live-fences":
		// the report came from the race detector; re-run the same kind of
		// histories here (the -race binary is only built by the normal run)
		ev.Rapid("race-child", 100)
		rapid.Check(t, func(rt *rapid.T) {
			p := drawLiveHeavyCase(rt)
			c.Case()
			o := runPubSub(p)
			applyOutcome(c, o)
			if o.key != "" {
				c.Fail(rt, o.key, o.what, psReplay{Case: p, History: o.history})
			}
		})
	default:
		t.Fatalf("unknown check %q", doc.Check)
	}
}

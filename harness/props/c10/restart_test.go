package c10

import (
	"fmt"
	"strconv"
	"strings"
	"sync"
	"syscall"
	"testing"
	"time"

	"github.com/tidwall/tile38/verif/harness/ev"
	"github.com/tidwall/tile38/verif/harness/t38"
	"pgregory.net/rapid"
)

// Webhook outage that spans one or two restarts of the server: the pending
// notifications live in queue.db, so they must survive a kill or a clean stop
// and be delivered, together with everything queued afterwards, exactly once
// and in order when the endpoint recovers.

type rsCase struct {
	Fence  fenceSpec   `json:"fence"`
	Meta   bool        `json:"meta,omitempty"`
	Down   string      `json:"down"`   // how the endpoint fails during the outage: 500 | reset
	Stops  []string    `json:"stops"`  // one entry per restart: kill (SIGKILL) | term (SIGTERM, clean shutdown)
	Pre    []whWrite   `json:"pre"`    // endpoint healthy
	Phases [][]whWrite `json:"phases"` // during the outage; a restart between consecutive phases
	Post   []whWrite   `json:"post"`   // after recovery
	// Quiet: nothing at all is written for this hook after the last restart
	// (last phase and Post are ignored, no closing writes): the backlog that
	// was queued before the restart must arrive on its own once the endpoint
	// is healthy. RecoverEarly: the endpoint becomes healthy while the server
	// is down (otherwise shortly after it is back).
	NameTail     int  `json:"name_tail,omitempty"` // index into hostileTail, appended to hook and twin name
	Quiet        bool `json:"quiet,omitempty"`
	RecoverEarly bool `json:"recover_early,omitempty"`
}

func drawWrites(rt *rapid.T, label string, min, max int) []whWrite {
	n := rapid.IntRange(min, max).Draw(rt, label+"n")
	out := make([]whWrite, 0, n)
	for i := 0; i < n; i++ {
		w := whWrite{Kind: "set", Obj: rapid.IntRange(0, 2).Draw(rt, label+"obj"), Pos: rapid.IntRange(0, 7).Draw(rt, label+"pos")}
		switch x := rapid.IntRange(0, 19).Draw(rt, label+"kind"); {
		case x < 2:
			w.Kind = "del"
		case x < 4:
			w.Kind = "fset"
		}
		out = append(out, w)
	}
	return out
}

func drawRSCase(rt *rapid.T) rsCase {
	p := rsCase{Fence: drawFence(rt, "rs")}
	if rapid.IntRange(0, 2).Draw(rt, "nearby") == 0 {
		p.Fence.Cmd = "NEARBY"
	}
	p.Meta = rapid.IntRange(0, 3).Draw(rt, "meta") == 0
	p.NameTail = drawTail(rt, "nametail", allowInvalidNames)
	p.Down = rapid.SampledFrom([]string{"500", "reset"}).Draw(rt, "down")
	nstops := 1
	if rapid.IntRange(0, 3).Draw(rt, "two") == 0 {
		nstops = 2
	}
	for i := 0; i < nstops; i++ {
		p.Stops = append(p.Stops, rapid.SampledFrom([]string{"kill", "term"}).Draw(rt, "stop"))
	}
	p.Pre = drawWrites(rt, "pre", 0, 4)
	for i := 0; i <= nstops; i++ {
		p.Phases = append(p.Phases, drawWrites(rt, fmt.Sprintf("ph%d", i), 0, 3))
	}
	p.Post = drawWrites(rt, "post", 0, 3)
	if rapid.IntRange(0, 2).Draw(rt, "quiet") == 0 {
		p.Quiet = true
		p.RecoverEarly = rapid.Bool().Draw(rt, "recoverearly")
	}
	return p
}

func serverPending(c *t38.Conn) (int, int, error) {
	v, err := c.Do("SERVER")
	if err != nil {
		return 0, 0, err
	}
	if v.IsErr() {
		return 0, 0, fmt.Errorf("SERVER: %s", v.Str)
	}
	n, err := strconv.Atoi(serverField(v, "pending_events"))
	if err != nil {
		return 0, 0, fmt.Errorf("SERVER pending_events: %v", err)
	}
	pid, _ := strconv.Atoi(serverField(v, "pid"))
	return n, pid, nil
}

func runRestart(p rsCase) *outcome {
	o := &outcome{}
	n := caseSeq.Add(1)
	t0 := now()
	stalled := func() bool { return mon.MaxSince(t0) > time.Second }
	proc, err := t38.StartProc(t38.Opts{})
	if err != nil {
		o.inconclusive = "cannot start the subprocess server: " + err.Error()
		return o
	}
	dir := proc.Dir
	tail := tailOf([]int{p.NameTail}, 0)
	key, hook, twin := fmt.Sprintf("rk%d", n), fmt.Sprintf("rh%d", n)+tail, fmt.Sprintf("rt%d", n)+tail
	tw := &twinReader{name: twin, done: make(chan struct{}), sync: make(chan struct{}, 8)}
	ep, err := newEndpoint(nil, &tw.count, "/hook/r")
	if err != nil {
		proc.Kill()
		o.inconclusive = "cannot create the local endpoint: " + err.Error()
		return o
	}
	ep.open()
	var ctl *t38.Conn
	var conns []*t38.Conn
	defer func() {
		tw.expectClose.Store(true)
		ep.shut(true)
		for _, c := range conns {
			c.Close()
		}
		if proc.Alive() {
			proc.Kill()
		}
	}()
	dial := func() (*t38.Conn, error) {
		c, err := t38.Dial(proc.Addr)
		if err == nil {
			conns = append(conns, c)
		}
		return c, err
	}
	// attach (re)connects the control connection and the twin subscriber to
	// the current server process
	attach := func() error {
		var err error
		if ctl, err = dial(); err != nil {
			return err
		}
		if tw.conn, err = dial(); err != nil {
			return err
		}
		v, err := tw.conn.Do("SUBSCRIBE", twin)
		if err != nil || v.Kind != '*' || len(v.Arr) != 3 || v.Arr[0].Str != "subscribe" {
			return fmt.Errorf("SUBSCRIBE twin: %v %v", v, err)
		}
		tw.stopped = make(chan struct{})
		tw.expectClose.Store(false)
		go tw.run()
		return nil
	}
	fargs := hookFenceArgs(p.Fence, key)
	var meta []string
	if p.Meta {
		meta = []string{"META", "fleet", "r", "META", "a", "b c"}
	}
	if err := attach(); err != nil {
		o.inconclusive = "set-up: " + err.Error()
		return o
	}
	if err := mustOK(ctl.Do(append(append([]string{"SETCHAN", twin}, meta...), twinFenceArgs(p.Fence, key)...)...)); err != nil {
		panic(fmt.Sprintf("SETCHAN: %v", err))
	}
	if err := mustOK(ctl.Do(append(append([]string{"SETHOOK", hook, ep.url()}, meta...), fargs...)...)); err != nil {
		panic(fmt.Sprintf("SETHOOK: %v", err))
	}
	seq := 0
	// write sends the commands pipelined on a fresh connection and waits for
	// every reply: all of them are acknowledged writes afterwards
	write := func(ws []whWrite, closing string) error {
		var cmds [][]string
		for _, w := range ws {
			seq++
			id := fmt.Sprintf("o%d", w.Obj)
			switch w.Kind {
			case "set":
				cmds = append(cmds, []string{"SET", key, id, "POINT", fmt.Sprintf("%.6f", float64(seq)*1e-6), strconv.Itoa(w.Pos)})
			case "del":
				cmds = append(cmds, []string{"DEL", key, id})
			case "fset":
				cmds = append(cmds, []string{"FSET", key, id, "speed", strconv.Itoa(seq)})
			}
		}
		if closing != "" {
			// a fresh object moved into and out of the fence: at least one notification
			for _, pos := range []int{p.Fence.Lo, 0} {
				seq++
				cmds = append(cmds, []string{"SET", key, closing, "POINT", fmt.Sprintf("%.6f", float64(seq)*1e-6), strconv.Itoa(pos)})
			}
		}
		c, err := dial()
		if err != nil {
			return err
		}
		for _, cmd := range cmds {
			if err := c.Send(cmd...); err != nil {
				return err
			}
		}
		for range cmds {
			if _, err := c.RecvTimeout(2 * t38.ReplyTimeout); err != nil {
				return err
			}
		}
		return nil
	}
	// syncTwin makes sure the twin subscriber has read everything published so far
	syncTwin := func() error {
		v, err := ctl.Do("PUBLISH", twin, "SYNC")
		if err != nil || v.Kind != ':' || v.Int != 1 {
			return fmt.Errorf("PUBLISH SYNC: %v %v", v, err)
		}
		select {
		case <-tw.sync:
			return nil
		case <-time.After(t38.ReplyTimeout):
			return fmt.Errorf("twin subscriber did not see the SYNC marker within %v", t38.ReplyTimeout)
		}
	}
	okCount := func() int {
		ep.mu.Lock()
		defer ep.mu.Unlock()
		return len(ep.ok)
	}
	harness := func(what string, err error) *outcome {
		if stalled() {
			o.inconclusive = what + ": " + err.Error() + " (test process stalled)"
		} else {
			o.fail("restart:"+what, "%v", err)
		}
		return o
	}

	// phase 0: healthy endpoint, everything is delivered
	if err := write(p.Pre, "zzpre"); err != nil {
		return harness("write", err)
	}
	if err := syncTwin(); err != nil {
		return harness("sync", err)
	}
	ep.mu.Lock()
	delivered := waitCond(ep.cond, time.Now().Add(t38.ReplyTimeout), func() bool { return len(ep.ok) >= int(tw.count.Load()) })
	ep.mu.Unlock()
	if !delivered {
		o.inconclusive = "notifications of the warm-up phase were not delivered within 30 s"
		if !stalled() {
			o.inconclusive = ""
			o.fail("webhook-stalled", "healthy endpoint: %d of %d notifications delivered within %v", okCount(), tw.count.Load(), t38.ReplyTimeout)
		}
		return o
	}
	// outage begins
	ep.mu.Lock()
	ep.force = p.Down
	ep.mu.Unlock()
	o.label("outage:" + p.Down)
	queuedAtStop := 0
	arrAtStop := 0
	laterNotified := false
	for ph, ws := range p.Phases {
		before := tw.count.Load()
		if p.Quiet && ph == len(p.Phases)-1 {
			break // nothing is written after the last restart
		}
		if err := write(ws, fmt.Sprintf("zz%d", ph)); err != nil {
			return harness("write", err)
		}
		if err := syncTwin(); err != nil {
			return harness("sync", err)
		}
		if ph > 0 && tw.count.Load() > before {
			laterNotified = true
		}
		if ph == len(p.Phases)-1 {
			break
		}
		// ---- restart, at an instant at which no delivery attempt is in flight ----
		kind := p.Stops[ph]
		expected := int(tw.count.Load()) - okCount()
		deadline := time.Now().Add(15 * time.Second)
		stopped := false
		for !stopped && time.Now().Before(deadline) {
			ep.mu.Lock()
			n0 := len(ep.arrivals)
			got := waitCond(ep.cond, time.Now().Add(3*time.Second), func() bool { return len(ep.arrivals) > n0 })
			var tArr int64
			if got {
				tArr = ep.arrivals[len(ep.arrivals)-1].T
			}
			ep.mu.Unlock()
			if !got {
				continue
			}
			time.Sleep(30 * time.Millisecond) // the failed batch is re-inserted right after the failure
			pending, pid, err := serverPending(ctl)
			if err != nil {
				return harness("SERVER", err)
			}
			if pending != expected || time.Duration(now()-tArr) > 300*time.Millisecond {
				continue // an attempt is in flight or we are too late in the 0.5 s retry cycle
			}
			tw.expectClose.Store(true)
			if kind == "kill" {
				proc.Kill()
			} else {
				syscall.Kill(pid, syscall.SIGTERM)
				for i := 0; i < 2000 && proc.Alive(); i++ {
					time.Sleep(10 * time.Millisecond)
				}
				if proc.Alive() {
					proc.Kill()
					o.inconclusive = "server did not exit within 20 s after SIGTERM"
					return o
				}
			}
			stopped = true
		}
		if !stopped {
			o.inconclusive = "no quiet instant for the restart found within 15 s (queue never matched the expected backlog between two attempts)"
			return o
		}
		select {
		case <-tw.stopped:
		case <-time.After(10 * time.Second):
		}
		ep.mu.Lock()
		arrAtStop = len(ep.arrivals)
		if p.Quiet && p.RecoverEarly && ph == len(p.Phases)-2 {
			ep.force = "" // the endpoint recovers while the server is down
		}
		ep.mu.Unlock()
		queuedAtStop += expected
		o.label("restart:" + kind)
		o.count("notifications-queued-across-a-restart", expected)
		proc, err = t38.StartProc(t38.Opts{Dir: dir})
		if err != nil {
			return harness("restart", fmt.Errorf("server did not come back on its data directory: %v", err))
		}
		if err := attach(); err != nil {
			return harness("attach", err)
		}
		// the queue survived: the new process reports the same backlog (the
		// sender's attempts take entries out for a moment, so poll)
		var pending, want int
		okq := false
		for i := 0; i < 150 && !okq; i++ {
			if pending, _, err = serverPending(ctl); err != nil {
				return harness("SERVER", err)
			}
			want = int(tw.count.Load()) - okCount()
			if okq = pending == want; !okq {
				time.Sleep(20 * time.Millisecond)
			}
		}
		if !okq {
			what := fmt.Sprintf("after the %s restart the queue holds %d notifications, %d were pending when the server was stopped at a quiet instant", kind, pending, want)
			if kind == "kill" && !stalled() {
				o.fail("webhook-queue-lost-across-restart", "%s", what)
			} else {
				o.inconclusive = what + " (clean shutdown takes longer than one retry cycle, an attempt may have been in flight at exit)"
			}
			return o
		}
	}
	// recovery
	ep.mu.Lock()
	ep.force = ""
	ep.mu.Unlock()
	if p.Quiet {
		// No event for this hook after the restart: the queued notifications
		// have to be sent by the re-created hook on its own. The sender
		// retries twice per second, so a healthy endpoint sees the backlog
		// within about a second; wait much longer than that, but well inside
		// the 30 s retention.
		o.label("quiet-after-restart")
		want := int(tw.count.Load())
		ep.mu.Lock()
		arrived := waitCond(ep.cond, time.Now().Add(12*time.Second), func() bool { return len(ep.ok) >= want })
		got, attempts := len(ep.ok), len(ep.arrivals)-arrAtStop
		ep.mu.Unlock()
		if !arrived {
			pending, _, perr := serverPending(ctl)
			what := fmt.Sprintf("the endpoint has been healthy for 12 s after the %s restart, %d of %d notifications were answered 200, the sender made %d attempts since the restart, SERVER reports %d pending events (%v); retention is 30 s, the oldest notification is %v old",
				p.Stops[len(p.Stops)-1], got, want, attempts, pending, perr, time.Duration(now()-t0).Round(time.Second))
			if stalled() || perr != nil || time.Duration(now()-t0) > 22*time.Second {
				o.inconclusive = "quiet restart: " + what
			} else {
				o.fail("webhook-lost", "no further event for the hook after the restart: %s", what)
			}
			return o
		}
	} else if err := write(p.Post, "zzend"); err != nil {
		return harness("write", err)
	}
	if v, err := ctl.Do("PUBLISH", twin, "END"); err != nil || v.Kind != ':' || v.Int != 1 {
		return harness("publish END", fmt.Errorf("%v %v", v, err))
	}
	r := &whRun{o: o, p: whCase{NKeys: 1, Hooks: []whHook{{Fence: p.Fence, Meta: p.Meta, NameTail: p.NameTail}}}, eps: []*endpoint{ep}, twins: []*twinReader{tw}, t0: t0}
	r.verify()
	o.ntKey = ""
	if o.key == "" && o.inconclusive == "" && queuedAtStop > 0 && (laterNotified || p.Quiet) {
		bucket := "1"
		if queuedAtStop > 1 {
			bucket = "2-4"
		}
		if queuedAtStop > 4 {
			bucket = ">4"
		}
		o.ntKey = fmt.Sprintf("%s/%s/%s/%s/%v/queued=%s/phases=%v/quiet=%v/%v", p.Down, strings.Join(p.Stops, "+"), p.Fence.Cmd, strings.Join(p.Fence.Detect, "+"), p.Meta, bucket, phaseSizes(p), p.Quiet, p.RecoverEarly)
	}
	return o
}

func phaseSizes(p rsCase) []int {
	out := []int{len(p.Pre)}
	for _, ph := range p.Phases {
		out = append(out, len(ph))
	}
	return append(out, len(p.Post))
}

type rsReplay struct {
	Case    rsCase   `json:"case"`
	History []string `json:"observed_history,omitempty"`
}

func TestC10_WebhookRestart(t *testing.T) {
	c := ev.New("C10", "webhook-restart", "fault_enumeration")
	t.Cleanup(c.Flush)
	c.Rule("a subprocess server with one fence installed as SETHOOK to a local HTTP endpoint and as a twin SETCHAN (WITHIN/INTERSECTS/NEARBY, DETECT lists, optional META); phases: writes with a healthy endpoint; the endpoint starts failing (every request answered 500, or its connection reset); 0-3 generated SET/DEL/FSET plus one fresh object moved through the fence are written and acknowledged (so at least one notification is queued); the server is stopped by SIGKILL or SIGTERM at an instant at which no delivery attempt is in flight (directly after a failed attempt, backlog reported by SERVER == expected backlog) and started again on the same data directory (once or twice, with more writes in between and after); the endpoint recovers; closing writes. The twin subscriber is synchronised before each stop and re-subscribed before the next write, so the twin's sequence is the complete expectation. Oracle: requests answered 200 == twin sequence (nothing lost, duplicated, reordered, foreign); additionally the restarted server must report the same backlog. Non-trivial: at least one notification was queued across a restart and a later write during the same outage produced another one; distinct by (failure kind, stop kinds, fence kind, DETECT, META, backlog class, phase sizes).")
	c.Assume("a stop while a delivery attempt is in flight is deliberately avoided: Hook.proc deletes a whole batch from queue.db before sending it and re-inserts it only after a failure, so a process exit inside that window drops the batch (at-most-once by construction); with SIGTERM the shutdown lasts longer than one retry cycle, so a backlog deficit after a clean stop is recorded as inconclusive")
	if t38.ServerBin() == "" {
		c.Inconclusive("VERIF_SERVER_BIN not set: restart cases need the subprocess server")
		t.Skip("no server binary")
	}
	batch := 3
	ev.Rapid("webhook-restart", ev.Pick(3, 12))
	rapid.Check(t, func(rt *rapid.T) {
		cases := make([]rsCase, batch)
		for i := range cases {
			cases[i] = drawRSCase(rt)
		}
		outs := make([]*outcome, batch)
		var wg sync.WaitGroup
		for i := range cases {
			wg.Add(1)
			go func(i int) {
				defer wg.Done()
				outs[i] = runRestart(cases[i])
			}(i)
		}
		wg.Wait()
		for i, o := range outs {
			c.Case()
			applyOutcome(c, o)
			if c.WantSample() {
				c.Sample(map[string]any{"case": cases[i], "labels": sortedKeys(o.labels), "history": o.history})
			}
		}
		for i, o := range outs {
			if o.key != "" {
				c.Fail(rt, o.key, o.what, rsReplay{Case: cases[i], History: o.history})
			}
		}
	})
}

package c10

import (
	"encoding/json"
	"fmt"
	"sync/atomic"
	"testing"
	"time"

	"github.com/tidwall/tile38/verif/harness/ev"
	"github.com/tidwall/tile38/verif/harness/t38"
	"pgregory.net/rapid"
)

// A burst of notifications queued while the endpoint is failing, then the
// endpoint recovers and nothing else is written for the hook: the whole
// backlog — however long — must arrive, in order, once, well inside the
// retention.

type burstCase struct {
	N     int    `json:"n"`     // pipelined SETs of fresh objects entering the fence: one notification each
	Fault string `json:"fault"` // how the request in flight during the burst ends: 500 | reset | hang | slow (200, late)
	Tail  int    `json:"tail"`
}

func runBurst(p burstCase) *outcome {
	o := &outcome{}
	n := caseSeq.Add(1)
	t0 := now()
	key := fmt.Sprintf("bk%d", n)
	name := fmt.Sprintf("bh%d", n) + tailOf([]int{p.Tail}, 0)
	ctl := srv.MustDial()
	defer ctl.Close()
	var cnt atomic.Int64
	first := epAction{Kind: p.Fault, Hold: true}
	switch p.Fault {
	case "slow":
		first.Kind = "ok"
	case "hang":
		first = epAction{Kind: "hang"} // ends by itself when the sender's 5 s timeout fires
	}
	ep, err := newEndpoint([]epAction{first}, &cnt, "/burst")
	if err != nil {
		o.inconclusive = "cannot create an endpoint: " + err.Error()
		return o
	}
	ep.gate = make(chan struct{})
	ep.open()
	defer ep.shut(true)
	defer ctl.Do("DROP", key)
	defer ctl.Do("DELHOOK", name)
	if err := mustOK(ctl.Do("SETHOOK", name, ep.url(), "WITHIN", key, "FENCE", "DETECT", "enter", "BOUNDS", "-1", "0.5", "1", "1.5")); err != nil {
		o.fail("command-failed:sethook", "%v", err)
		return o
	}
	id := func(i int) string { return fmt.Sprintf("m%04d", i) }
	// the first write; its request is now in flight at the endpoint
	if err := mustOK(ctl.Do("SET", key, id(1), "POINT", "0.000001", "1")); err != nil {
		o.fail("command-failed:set", "%v", err)
		return o
	}
	ep.mu.Lock()
	arrived := waitCond(ep.cond, time.Now().Add(t38.ReplyTimeout), func() bool { return len(ep.arrivals) >= 1 })
	ep.mu.Unlock()
	if !arrived {
		o.fail("webhook-stalled", "hook %q: the first notification was not sent within %v", name, t38.ReplyTimeout)
		return o
	}
	// the burst, in one packet, while that request is unanswered
	var packet []byte
	for i := 2; i <= p.N; i++ {
		packet = append(packet, t38.EncodeCmd("SET", key, id(i), "POINT", fmt.Sprintf("%.6f", float64(i)*1e-6), "1")...)
	}
	w := srv.MustDial()
	defer w.Close()
	if err := w.SendRaw(packet); err != nil {
		o.inconclusive = "burst write: " + err.Error()
		return o
	}
	for i := 2; i <= p.N; i++ {
		if v, err := w.RecvTimeout(2 * t38.ReplyTimeout); err != nil || v.IsErr() {
			o.fail("command-failed:set", "burst SET %d: %v %v", i, v, err)
			return o
		}
	}
	released := now()
	close(ep.gate) // the fault ends; from here on the endpoint is healthy and nothing more is written
	o.label("fault:" + p.Fault)
	// quiet: the sender retries twice a second; a healthy endpoint has the
	// whole backlog a moment later. Wait far longer, but inside the retention.
	budget := 12 * time.Second
	if p.Fault == "hang" {
		budget = 18 * time.Second // the hanging request alone takes the sender's 5 s timeout
	}
	ep.mu.Lock()
	all := waitCond(ep.cond, time.Now().Add(budget), func() bool { return len(ep.ok) >= p.N })
	oks := append([]string{}, ep.ok...)
	attempts := len(ep.arrivals)
	ep.mu.Unlock()
	if all {
		time.Sleep(30 * time.Millisecond) // a duplicate would follow at once
		ep.mu.Lock()
		oks = append([]string{}, ep.ok...)
		ep.mu.Unlock()
	}
	age := time.Duration(now() - t0)
	o.hist("hook %q burst=%d fault=%s: %d requests, %d answered 200, case age %v", name, p.N, p.Fault, attempts, len(oks), age.Round(time.Millisecond))
	next := 1
	for k, b := range oks {
		var m struct {
			ID string `json:"id"`
		}
		json.Unmarshal([]byte(b), &m)
		if m.ID != id(next) {
			key := "webhook-order"
			if m.ID < id(next) {
				key = "webhook-duplicate"
			}
			o.fail(key, "hook %q, burst of %d notifications queued behind a request that ended as %q: request #%d answered 200 carries %s, expected %s", name, p.N, p.Fault, k, m.ID, id(next))
			return o
		}
		next++
	}
	if !all {
		pending, _, perr := serverPending(ctl)
		what := fmt.Sprintf("hook %q: %d notifications were queued while a request was unanswered (%s); the endpoint has been healthy and nothing else was written for %v, but only %d of %d were answered 200 (the last one %s), %d requests in all; SERVER reports %d pending events (%v); retention is 30 s, the oldest notification is %v old",
			name, p.N, p.Fault, time.Duration(now()-released).Round(time.Second), len(oks), p.N, id(next-1), attempts, pending, perr, age.Round(time.Second))
		if mon.MaxSince(t0) > time.Second || age > 24*time.Second {
			o.inconclusive = what
		} else {
			o.fail("webhook-lost", "%s", what)
		}
		return o
	}
	o.count("burst-notifications-delivered", p.N)
	o.ntKey = fmt.Sprintf("%d/%s/%d", p.N, p.Fault, p.Tail)
	return o
}

type burstReplay struct {
	Case    burstCase `json:"case"`
	History []string  `json:"observed_history,omitempty"`
}

func TestC10_WebhookBurst(t *testing.T) {
	c := ev.New("C10", "webhook-burst", "exploration")
	t.Cleanup(c.Flush)
	c.Rule("one hook (DETECT enter, fresh objects: one notification per SET) to a local endpoint; the first notification's request is kept unanswered; meanwhile N-1 SETs are sent in ONE packet and all acknowledged; then the pending request ends as a fault (500, connection reset, or the sender's own 5 s timeout on a hanging request) or as a late 200, the endpoint is healthy from then on and NOTHING else is written for the hook. Oracle: all N notifications are answered 200 in write order, exactly once, within 12 s (18 s with the hanging request) of the recovery — the sender retries twice a second, and the retention is 30 s. Quick: N=300 behind a 500. Thorough: N across internal limits (255, 256, 257, 511, 512, 513, 1000) and generated sizes 2-1200, all four endings, hostile hook names. Every case is non-trivial (a backlog survives a fault and must drain without another event); distinct by (N, ending, name tail).")
	run := func(p burstCase) *outcome {
		c.Case()
		o := runBurst(p)
		applyOutcome(c, o)
		return o
	}
	o := run(burstCase{N: 300, Fault: "500"})
	if o.key != "" {
		c.Violation(o.key, o.what, burstReplay{Case: burstCase{N: 300, Fault: "500"}, History: o.history})
		t.Fatalf("VIOLATION-CANDIDATE key=%s: %s", o.key, o.what)
	}
	if !ev.Thorough() {
		return
	}
	sizes := []int{255, 256, 257, 511, 512, 513, 1000}
	faults := []string{"500", "reset", "slow", "hang"}
	for k := 0; k < 3; k++ {
		p := burstCase{N: sizes[(ev.Shard()+3*k)%len(sizes)], Fault: faults[(ev.Shard()+k)%len(faults)]}
		if o := run(p); o.key != "" {
			c.Violation(o.key, o.what, burstReplay{Case: p, History: o.history})
			t.Fatalf("VIOLATION-CANDIDATE key=%s: %s", o.key, o.what)
		}
	}
	ev.Rapid("webhook-burst", 12)
	rapid.Check(t, func(rt *rapid.T) {
		p := burstCase{
			N:     rapid.OneOf(rapid.IntRange(2, 1200), rapid.SampledFrom([]int{255, 256, 257, 258, 511, 512, 513, 1023, 1024, 1025})).Draw(rt, "n"),
			Fault: rapid.SampledFrom([]string{"500", "500", "reset", "reset", "slow", "hang"}).Draw(rt, "fault"),
			Tail:  drawTail(rt, "tail", allowInvalidNames),
		}
		if o := run(p); o.key != "" {
			c.Fail(rt, o.key, o.what, burstReplay{Case: p, History: o.history})
		}
	})
}

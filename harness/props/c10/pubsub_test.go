package c10

import (
	"unicode/utf8"

	"encoding/json"
	"fmt"
	"math"
	"os"
	"sort"
	"strconv"
	"strings"
	"sync"
	"time"

	"github.com/tidwall/tile38/verif/harness/ev"
	"github.com/tidwall/tile38/verif/harness/t38"
	"pgregory.net/rapid"
)

// ---- case description (this is also the replay document) ---------------------

// fenceSpec is a rectangular fence over the 1-D position grid 0..7: a point
// at position p (longitude p) is inside iff Lo <= p <= Hi; the rectangle's
// edges are at half-integers so nothing ever lies on a boundary.
type fenceSpec struct {
	Cmd    string   `json:"cmd"` // WITHIN | INTERSECTS
	Lo     int      `json:"lo"`
	Hi     int      `json:"hi"`
	Detect []string `json:"detect,omitempty"` // nil = all
	// Limit > 0 adds "LIMIT n" to the fence definition. A fence is not a
	// search: its LIMIT (default 100) does not bound how many notifications
	// it produces over its life (implementation mirrored), so the model
	// ignores it.
	Limit int `json:"limit,omitempty"`
}

type pubOp struct {
	Kind  string `json:"k"` // pub | set
	Chan  int    `json:"c"` // pub: index into the channel universe
	Obj   int    `json:"o"` // set: object
	Pos   int    `json:"p"` // set: position 0..7
	Pause int    `json:"us,omitempty"`
	Pipe  bool   `json:"pipe,omitempty"` // sent together with the next op
	Text  string `json:"-"`              // fixed payload (stream sentinel)
}

type subOp struct {
	Kind  string `json:"k"` // sub | psub | unsub | punsub
	Names []int  `json:"n"` // indexes into the channel universe / the pattern list
	Wait  bool   `json:"w,omitempty"`
	Pause int    `json:"us,omitempty"`
}

type liveSpec struct {
	Fence   fenceSpec `json:"fence"`
	DelayUs int       `json:"delay_us"`
	// Leave: "" = stays until the end (a survivor, fully checked); "quit" /
	// "close" = the connection sends QUIT / is closed abruptly LeaveUs after
	// its fence was acknowledged
	Leave   string `json:"leave,omitempty"`
	LeaveUs int    `json:"leave_us,omitempty"`
}

type psCase struct {
	NChan  int         `json:"nchan"`
	Pats   []string    `json:"pats"`
	Fences []fenceSpec `json:"fences"`
	Lives  []liveSpec  `json:"lives,omitempty"`
	Pubs   [][]pubOp   `json:"pubs"`
	Subs   [][]subOp   `json:"subs"`
	// JSONSubs[i]: subscriber i switches to OUTPUT json first; its messages
	// then arrive as bare JSON documents without channel attribution
	JSONSubs []bool `json:"json_subs,omitempty"`
	// ChanTail / FenceTail: per plain channel / fence channel an index into
	// hostileTail, appended to the generated name (0 = plain)
	ChanTail  []int `json:"chan_tail,omitempty"`
	FenceTail []int `json:"fence_tail,omitempty"`
}

// allowInvalidNames: fence-channel and hook names that are not valid UTF-8
// are generated unless that shape is excluded as a known finding.
var allowInvalidNames = !ev.KnownActive(findingNameUTF8)

func tailOf(ix []int, i int) string {
	if i < len(ix) && ix[i] >= 0 && ix[i] < len(hostileTail) {
		return hostileTail[ix[i]]
	}
	return ""
}

var chanSuffix = []string{"a", "b", "ab"}
var fenceSuffix = []string{"f1", "f2"}
var patPool = []string{"*", "a*", "?", "*b", "f*", "??", "f?", "a", "*a*", "f1", "?b"}
var detectPool = [][]string{
	nil, nil, nil,
	{"inside", "outside"},
	{"enter", "exit"},
	{"enter", "exit", "cross"},
	{"inside"},
	{"enter", "inside", "outside"},
	{"exit", "outside", "cross"},
}

func drawFence(rt *rapid.T, label string) fenceSpec {
	lo := rapid.IntRange(1, 5).Draw(rt, label+"lo")
	hi := rapid.IntRange(lo, 6).Draw(rt, label+"hi")
	return fenceSpec{
		Cmd:    rapid.SampledFrom([]string{"WITHIN", "INTERSECTS"}).Draw(rt, label+"cmd"),
		Lo:     lo,
		Hi:     hi,
		Detect: detectPool[rapid.IntRange(0, len(detectPool)-1).Draw(rt, label+"detect")],
		Limit:  rapid.SampledFrom([]int{0, 0, 0, 0, 0, 1, 2, 3, 5}).Draw(rt, label+"limit"),
	}
}

func drawPause(rt *rapid.T, label string) int {
	if rapid.IntRange(0, 3).Draw(rt, label+"pz") != 0 {
		return 0
	}
	return rapid.IntRange(1, 400).Draw(rt, label+"us")
}

func drawPSCase(rt *rapid.T, maxPubOps, maxLives int) psCase {
	var p psCase
	p.NChan = rapid.IntRange(1, 3).Draw(rt, "nchan")
	for i := 0; i < p.NChan; i++ {
		// a plain PUBLISH never goes through JSON: any bytes are fine here
		p.ChanTail = append(p.ChanTail, drawTail(rt, "chantail", true))
	}
	npat := rapid.IntRange(0, 3).Draw(rt, "npat")
	seen := map[string]bool{}
	for i := 0; i < npat; i++ {
		s := rapid.SampledFrom(patPool).Draw(rt, "pat")
		if !seen[s] {
			seen[s] = true
			p.Pats = append(p.Pats, s)
		}
	}
	nf := rapid.IntRange(0, 2).Draw(rt, "nfence")
	for i := 0; i < nf; i++ {
		p.Fences = append(p.Fences, drawFence(rt, fmt.Sprintf("f%d", i)))
		p.FenceTail = append(p.FenceTail, drawTail(rt, "fencetail", allowInvalidNames))
	}
	nlive := 0
	switch x := rapid.IntRange(0, 11).Draw(rt, "live"); {
	case x < 3:
		nlive = 1
	case x < 6 && maxLives > 1:
		nlive = rapid.IntRange(2, maxLives).Draw(rt, "nlive")
	}
	for i := 0; i < nlive; i++ {
		l := liveSpec{Fence: drawFence(rt, fmt.Sprintf("live%d", i)), DelayUs: rapid.IntRange(0, 1500).Draw(rt, "livedelay")}
		if i > 0 {
			// connection churn: the first live fence always survives, the others
			// may share its definition and may leave while writes go on
			if rapid.IntRange(0, 2).Draw(rt, "samefence") == 0 {
				l.Fence = p.Lives[0].Fence
			}
			l.Leave = rapid.SampledFrom([]string{"", "quit", "quit", "close", "close"}).Draw(rt, "leave")
			if l.Leave != "" {
				l.LeaveUs = rapid.IntRange(0, 1500).Draw(rt, "leaveus")
			}
		}
		p.Lives = append(p.Lives, l)
	}
	universe := p.NChan + len(p.Fences)
	writes := len(p.Fences) > 0 || len(p.Lives) > 0
	npub := rapid.IntRange(1, 4).Draw(rt, "npub")
	// a share of the histories is long: one publisher moves the objects more
	// often than the default fence LIMIT of 100, and every fence notifies on
	// every write
	long := writes && rapid.IntRange(0, 39).Draw(rt, "long") == 0
	if long {
		for i := range p.Fences {
			p.Fences[i].Detect = nil
		}
		for i := range p.Lives {
			p.Lives[i].Fence.Detect = nil
		}
	}
	for i := 0; i < npub; i++ {
		n := rapid.IntRange(1, maxPubOps).Draw(rt, "npubops")
		if long && i == 0 {
			n = rapid.IntRange(110, 150).Draw(rt, "nlongops")
		}
		ops := make([]pubOp, 0, n)
		for j := 0; j < n; j++ {
			var op pubOp
			if writes && (rapid.IntRange(0, 9).Draw(rt, "isset") < 4 || (long && i == 0)) {
				op.Kind = "set"
				op.Obj = rapid.IntRange(0, 2).Draw(rt, "obj")
				op.Pos = rapid.IntRange(0, 7).Draw(rt, "pos")
			} else {
				op.Kind = "pub"
				op.Chan = rapid.IntRange(0, universe-1).Draw(rt, "chan")
			}
			op.Pause = drawPause(rt, "pub")
			op.Pipe = rapid.IntRange(0, 3).Draw(rt, "pipe") == 0
			ops = append(ops, op)
		}
		p.Pubs = append(p.Pubs, ops)
	}
	nsub := rapid.IntRange(1, 6).Draw(rt, "nsub")
	for i := 0; i < nsub; i++ {
		n := rapid.IntRange(1, 6).Draw(rt, "nsubops")
		ops := make([]subOp, 0, n)
		for j := 0; j < n; j++ {
			kinds := []string{"sub", "sub", "unsub"}
			if len(p.Pats) > 0 {
				kinds = []string{"sub", "sub", "psub", "psub", "unsub", "punsub"}
			}
			if j == 0 {
				kinds = kinds[:len(kinds)/3*2] // the first command must enter subscription mode
			}
			op := subOp{Kind: rapid.SampledFrom(kinds).Draw(rt, "subkind")}
			lim := universe
			if op.Kind == "psub" || op.Kind == "punsub" {
				lim = len(p.Pats)
			}
			nn := rapid.IntRange(1, 3).Draw(rt, "nnames")
			for k := 0; k < nn; k++ {
				op.Names = append(op.Names, rapid.IntRange(0, lim-1).Draw(rt, "name"))
			}
			op.Wait = j == 0 || rapid.Bool().Draw(rt, "wait")
			op.Pause = drawPause(rt, "sub")
			ops = append(ops, op)
		}
		p.Subs = append(p.Subs, ops)
		p.JSONSubs = append(p.JSONSubs, rapid.IntRange(0, 4).Draw(rt, "jsonsub") == 0)
	}
	return p
}

// ---- fence event model -------------------------------------------------------

func inFence(f fenceSpec, pos int) bool { return f.Lo <= pos && pos <= f.Hi }

func hasDetect(set []string, d string) bool {
	if set == nil {
		return true
	}
	for _, s := range set {
		if s == d {
			return true
		}
	}
	return false
}

// fenceEvents lists, in emission order, the "detect" values of the
// notifications one SET generates for one fence, after the documented rules:
// a point that was not inside and now is "enters" (followed by "inside"), the
// reverse "exits" (followed by "outside"), staying in is "inside", staying
// out is "outside" unless the straight move passes through the fence
// ("cross", followed by "outside"); with a DETECT list an unlisted enter
// degrades to inside, an unlisted exit/cross to outside, and unlisted
// inside/outside produce nothing.
func fenceEvents(f fenceSpec, old *int, pos int) []string {
	was := old != nil && inFence(f, *old)
	is := inFence(f, pos)
	var d string
	switch {
	case was && is:
		d = "inside"
	case was && !is:
		d = "exit"
	case !was && is:
		d = "enter"
	default:
		d = "outside"
		if old != nil && ((*old < f.Lo && pos > f.Hi) || (*old > f.Hi && pos < f.Lo)) {
			d = "cross"
		}
	}
	if !hasDetect(f.Detect, d) {
		switch d {
		case "enter":
			d = "inside"
		case "exit", "cross":
			d = "outside"
		default:
			return nil
		}
		if !hasDetect(f.Detect, d) {
			return nil
		}
	}
	out := []string{d}
	switch d {
	case "enter":
		if hasDetect(f.Detect, "inside") {
			out = append(out, "inside")
		}
	case "exit", "cross":
		if hasDetect(f.Detect, "outside") {
			out = append(out, "outside")
		}
	}
	return out
}

// detectCode is the documented within-one-write order of notifications:
// cross/other, exit, outside, enter, inside, ties by hook name.
func detectCode(d string) int {
	switch d {
	case "exit":
		return 1
	case "outside":
		return 2
	case "enter":
		return 3
	case "inside":
		return 4
	}
	return 0
}

func fenceArgs(f fenceSpec, key string) []string {
	a := []string{f.Cmd, key}
	if f.Limit > 0 {
		a = append(a, "LIMIT", strconv.Itoa(f.Limit))
	}
	a = append(a, "FENCE")
	if f.Detect != nil {
		a = append(a, "DETECT", strings.Join(f.Detect, ","))
	}
	return append(a, "BOUNDS", "-1", fmt.Sprintf("%.1f", float64(f.Lo)-0.5), "1", fmt.Sprintf("%.1f", float64(f.Hi)+0.5))
}

// ---- execution records --------------------------------------------------------

type emission struct {
	Pub, Op          int
	Kind             string
	Channel, Payload string
	Seq, Obj, Pos    int
	Send, Recv       int64
	Reply            int64
	Err              string
}

type ackRec struct {
	Op        int
	Cmd       string // subscribe | psubscribe | unsubscribe | punsubscribe
	Name      string
	Send, Ack int64
	acked     bool
}

type delivery struct {
	T       int64
	Sub     string // "c:"+channel or "p:"+pattern
	Channel string
	Payload string
}

type subRunner struct {
	idx  int
	conn *t38.Conn
	end  string // sentinel channel
	json bool   // connection is in OUTPUT json mode

	mu      sync.Mutex
	cond    *sync.Cond
	pending []*ackRec
	acks    []*ackRec
	dels    []delivery
	err     string // protocol/transport problem seen by the reader
	hang    bool
	sawEnd  bool
	done    bool
}

func newSubRunner(idx int, conn *t38.Conn, end string) *subRunner {
	s := &subRunner{idx: idx, conn: conn, end: end}
	s.cond = sync.NewCond(&s.mu)
	return s
}

func (s *subRunner) reader() {
	defer func() {
		s.mu.Lock()
		s.done = true
		s.cond.Broadcast()
		s.mu.Unlock()
	}()
	for {
		v, err := s.conn.Recv()
		t := now()
		s.mu.Lock()
		if err != nil {
			if err == t38.ErrHang {
				s.hang = true
			}
			s.err = "read: " + err.Error()
			s.mu.Unlock()
			return
		}
		if s.json {
			stop := s.jsonValue(v, t)
			s.mu.Unlock()
			if stop {
				return
			}
			continue
		}
		if v.Kind != '*' || len(v.Arr) < 3 {
			s.err = "unexpected value in subscription mode: " + v.String()
			s.mu.Unlock()
			return
		}
		switch tag := v.Arr[0].Str; tag {
		case "subscribe", "psubscribe", "unsubscribe", "punsubscribe":
			if len(s.pending) == 0 || s.pending[0].Cmd != tag || s.pending[0].Name != v.Arr[1].Str {
				s.err = "acknowledgement out of sequence: " + v.String()
				s.mu.Unlock()
				return
			}
			r := s.pending[0]
			s.pending = s.pending[1:]
			r.Ack, r.acked = t, true
			s.cond.Broadcast()
		case "message":
			d := delivery{T: t, Sub: "c:" + v.Arr[1].Str, Channel: v.Arr[1].Str, Payload: v.Arr[2].Str}
			s.dels = append(s.dels, d)
			if d.Channel == s.end {
				s.sawEnd = true
				s.mu.Unlock()
				return
			}
		case "pmessage":
			if len(v.Arr) != 4 {
				s.err = "malformed pmessage: " + v.String()
				s.mu.Unlock()
				return
			}
			s.dels = append(s.dels, delivery{T: t, Sub: "p:" + v.Arr[1].Str, Channel: v.Arr[2].Str, Payload: v.Arr[3].Str})
		default:
			s.err = "unexpected value in subscription mode: " + v.String()
			s.mu.Unlock()
			return
		}
		s.mu.Unlock()
	}
}

// jsonValue handles one value read on a JSON-mode subscription (s.mu held).
// Acknowledgements are {"ok":true,"command":..,"channel":..,"num":..}; a
// message is the published text itself: as it is when it is a JSON document
// (fence notifications), as a JSON string otherwise.
func (s *subRunner) jsonValue(v t38.Value, t int64) (stop bool) {
	if v.Kind != '$' || v.Null {
		s.err = "unexpected value in JSON subscription mode: " + v.String()
		return true
	}
	var str string
	if json.Unmarshal([]byte(v.Str), &str) == nil {
		s.dels = append(s.dels, delivery{T: t, Sub: "?", Payload: str})
		if str == jsonEndPayload {
			s.sawEnd = true
			return true
		}
		return false
	}
	var obj struct {
		OK      *bool  `json:"ok"`
		Command string `json:"command"`
		Channel string `json:"channel"`
		Detect  string `json:"detect"`
		Err     string `json:"err"`
	}
	if err := json.Unmarshal([]byte(v.Str), &obj); err != nil {
		s.err = "JSON-mode subscriber received something that is not JSON: " + v.Str
		return true
	}
	switch {
	case obj.Detect != "":
		s.dels = append(s.dels, delivery{T: t, Sub: "?", Payload: v.Str})
	case obj.OK != nil && *obj.OK && subCmdRev[obj.Command]:
		if len(s.pending) == 0 || s.pending[0].Cmd != obj.Command || jsonRoundTrip(s.pending[0].Name) != obj.Channel {
			s.err = "acknowledgement out of sequence: " + v.Str
			return true
		}
		r := s.pending[0]
		s.pending = s.pending[1:]
		r.Ack, r.acked = t, true
		s.cond.Broadcast()
	default:
		s.err = "unexpected document in JSON subscription mode: " + v.Str
		return true
	}
	return false
}

var subCmdRev = map[string]bool{"subscribe": true, "psubscribe": true, "unsubscribe": true, "punsubscribe": true}

var subCmd = map[string]string{"sub": "subscribe", "psub": "psubscribe", "unsub": "unsubscribe", "punsub": "punsubscribe"}

// do sends one (P)(UN)SUBSCRIBE command and, if wait, blocks until all of its
// acknowledgements were read (or the reader gave up).
func (s *subRunner) do(opIdx int, kind string, names []string, wait bool) {
	cmd := subCmd[kind]
	recs := make([]*ackRec, len(names))
	s.mu.Lock()
	t := now()
	for i, n := range names {
		recs[i] = &ackRec{Op: opIdx, Cmd: cmd, Name: n, Send: t}
		s.pending = append(s.pending, recs[i])
		s.acks = append(s.acks, recs[i])
	}
	s.mu.Unlock()
	if err := s.conn.Send(append([]string{strings.ToUpper(cmd)}, names...)...); err != nil {
		s.mu.Lock()
		if s.err == "" {
			s.err = "write: " + err.Error()
		}
		s.mu.Unlock()
		return
	}
	if wait {
		s.waitAcks()
	}
}

func (s *subRunner) waitAcks() {
	s.mu.Lock()
	for len(s.pending) > 0 && !s.done {
		s.cond.Wait()
	}
	s.mu.Unlock()
}

type liveDel struct {
	T       int64
	Payload string
}

type liveRunner struct {
	conn      *t38.Conn
	mu        sync.Mutex
	cond      *sync.Cond
	Send, Ack int64
	acked     bool
	dels      []liveDel
	err       string
	hang      bool
	done      bool
	left      bool  // the test made this connection leave (QUIT / close)
	LeaveT    int64 // instant just before the QUIT was sent / the socket closed
	leftCh    chan struct{}
}

// leave makes the connection go away: QUIT (the server closes) or an abrupt
// close from our side.
func (l *liveRunner) leave(how string, afterUs int) {
	defer close(l.leftCh)
	l.mu.Lock()
	for !l.acked && !l.done {
		l.cond.Wait()
	}
	ok := l.acked
	l.mu.Unlock()
	if !ok {
		return
	}
	time.Sleep(time.Duration(afterUs) * time.Microsecond)
	l.mu.Lock()
	l.left, l.LeaveT = true, now()
	l.mu.Unlock()
	if how == "quit" {
		l.conn.Send("QUIT")
	} else {
		l.conn.Close()
	}
}

func (l *liveRunner) run(args []string, delayUs int) {
	defer func() {
		l.mu.Lock()
		l.done = true
		l.cond.Broadcast()
		l.mu.Unlock()
	}()
	time.Sleep(time.Duration(delayUs) * time.Microsecond)
	send := now()
	if err := l.conn.Send(args...); err != nil {
		l.mu.Lock()
		l.err = "write: " + err.Error()
		l.mu.Unlock()
		return
	}
	v, err := l.conn.Recv()
	t := now()
	l.mu.Lock()
	l.Send = send
	if err != nil || v.Kind != '+' || v.Str != "OK" {
		l.hang = err == t38.ErrHang
		l.err = fmt.Sprintf("live fence not acknowledged with +OK: %v %v", v, err)
		l.mu.Unlock()
		return
	}
	l.Ack, l.acked = t, true
	l.cond.Broadcast()
	l.mu.Unlock()
	for {
		v, err := l.conn.Recv()
		t := now()
		l.mu.Lock()
		if err != nil {
			if l.left && err != t38.ErrHang {
				l.mu.Unlock()
				return // the end of a connection that was told to go
			}
			if err == t38.ErrHang {
				l.hang = true
			}
			l.err = "read: " + err.Error()
			l.mu.Unlock()
			return
		}
		if v.Kind == '+' && v.Str == "OK" && l.left {
			l.mu.Unlock()
			continue // some output modes acknowledge QUIT
		}
		if v.Kind != '$' || v.Null {
			l.err = "unexpected value on a live fence connection: " + v.String()
			l.mu.Unlock()
			return
		}
		l.dels = append(l.dels, liveDel{T: t, Payload: v.Str})
		l.cond.Broadcast()
		l.mu.Unlock()
	}
}

// runPublisher executes a publisher program; consecutive ops flagged Pipe are
// written back to back before any of their replies is read. opBase is the
// index of ops[0] within the publisher's whole program.
func runPublisher(conn *t38.Conn, pub int, ops []pubOp, opBase int, names []string, key string) []emission {
	out := make([]emission, 0, len(ops))
	for i := 0; i < len(ops); {
		j := i
		for ops[j].Pipe && j+1 < len(ops) {
			j++
		}
		if ops[i].Pause > 0 {
			time.Sleep(time.Duration(ops[i].Pause) * time.Microsecond)
		}
		first := len(out)
		cmds := make([][]string, 0, j-i+1)
		for k := i; k <= j; k++ {
			e := emission{Pub: pub, Op: opBase + k, Kind: ops[k].Kind}
			if ops[k].Kind == "pub" {
				e.Channel = names[ops[k].Chan]
				e.Payload = fmt.Sprintf("m|%d|%d", pub, e.Op)
				if ops[k].Text != "" {
					e.Payload = ops[k].Text
				}
				cmds = append(cmds, []string{"PUBLISH", e.Channel, e.Payload})
			} else {
				e.Seq = pub*1000 + e.Op + 1
				e.Obj, e.Pos = ops[k].Obj, ops[k].Pos
				cmds = append(cmds, []string{"SET", key, fmt.Sprintf("o%d", e.Obj), "POINT",
					fmt.Sprintf("%.6f", float64(e.Seq)*1e-6), strconv.Itoa(e.Pos)})
			}
			out = append(out, e)
		}
		send := now()
		for k, c := range cmds {
			out[first+k].Send = send
			if err := conn.Send(c...); err != nil {
				out[first+k].Err = "write: " + err.Error()
			}
		}
		for k := range cmds {
			e := &out[first+k]
			if e.Err != "" {
				continue
			}
			v, err := conn.Recv()
			e.Recv = now()
			switch {
			case err != nil:
				e.Err = "read: " + err.Error()
			case v.IsErr():
				e.Err = "error reply: " + v.Str
			case e.Kind == "pub" && v.Kind != ':':
				e.Err = "PUBLISH reply is not an integer: " + v.String()
			default:
				e.Reply = v.Int
			}
		}
		i = j + 1
	}
	return out
}

// ---- oracle ---------------------------------------------------------------------

// unit is one server-side Publish call: a PUBLISH command, or one
// notification of one fence for one SET.
type unit struct {
	Key        string
	Channel    string
	Pub, Op    int
	Sub        int // index of the notification within its write
	E          int // global index among fence notifications in log order; -1 for PUBLISH
	Send, Recv int64
	Reply      int64
	IsPub      bool
	copies     int
	lower      int
	upper      int
}

type ival struct{ from, to int64 }

type timeline struct {
	on, off []ival
	changes []*ackRec
}

func buildTimeline(recs []*ackRec) timeline {
	var tl timeline
	on := false
	from := int64(math.MinInt64)
	for _, r := range recs {
		isSub := r.Cmd == "subscribe" || r.Cmd == "psubscribe"
		if isSub && !on {
			tl.off = append(tl.off, ival{from, r.Send})
			on, from = true, r.Ack
			tl.changes = append(tl.changes, r)
		} else if !isSub && on {
			tl.on = append(tl.on, ival{from, r.Send})
			on, from = false, r.Ack
			tl.changes = append(tl.changes, r)
		}
	}
	if on {
		tl.on = append(tl.on, ival{from, math.MaxInt64})
	} else {
		tl.off = append(tl.off, ival{from, math.MaxInt64})
	}
	return tl
}

const (
	stMay = iota
	stMust
	stMustNot
)

// status classifies a Publish call that ran somewhere inside [send, recv]
// against a subscription's timeline: the subscription was certainly
// registered during the whole interval (acknowledged before send, no
// unsubscribe handed to the socket before recv), certainly not registered,
// or in transition.
func (tl timeline) status(send, recv int64) (int, string) {
	for _, iv := range tl.on {
		if iv.from < send && recv < iv.to {
			return stMust, ""
		}
	}
	for _, iv := range tl.off {
		if iv.from < send && recv < iv.to {
			return stMustNot, ""
		}
	}
	for _, r := range tl.changes {
		if r.Send <= recv && send <= r.Ack {
			return stMay, r.Cmd
		}
	}
	return stMay, "gap"
}

func subMatches(sub, channel string) bool {
	if strings.HasPrefix(sub, "c:") {
		return sub[2:] == channel
	}
	return wildMatch(sub[2:], channel)
}

type fenceMsg struct {
	Command string `json:"command"`
	Detect  string `json:"detect"`
	Hook    string `json:"hook"`
	Key     string `json:"key"`
	ID      string `json:"id"`
	Object  struct {
		Type        string    `json:"type"`
		Coordinates []float64 `json:"coordinates"`
	} `json:"object"`
}

func decodeFence(payload string) (fenceMsg, int, bool) {
	var m fenceMsg
	if json.Unmarshal([]byte(payload), &m) != nil || m.Detect == "" || len(m.Object.Coordinates) < 2 {
		return m, 0, false
	}
	return m, int(math.Round(m.Object.Coordinates[1] * 1e6)), true
}

func fenceKey(seq int, hook, detect string) string {
	return fmt.Sprintf("f|%d|%s|%s", seq, hook, detect)
}

const hangStallLimit = 3 * time.Second

// jsonEndPayload cannot be known to a JSON-mode reader from the channel name
// (JSON-mode messages carry none), so the sentinel uses a fixed payload.
const jsonEndPayload = "m|END"

// runPubSub executes one generated history and checks it.
func runPubSub(p psCase) *outcome {
	o := &outcome{}
	n := caseSeq.Add(1)
	pfx := fmt.Sprintf("c%d:", n)
	key := fmt.Sprintf("k%d", n)
	endChan := fmt.Sprintf("z%d", n)
	caseStart := now()

	var names []string // channel universe
	for i := 0; i < p.NChan; i++ {
		names = append(names, pfx+chanSuffix[i]+tailOf(p.ChanTail, i))
	}
	for i := range p.Fences {
		names = append(names, pfx+fenceSuffix[i]+tailOf(p.FenceTail, i))
	}
	fenceNames := names[p.NChan:]
	pats := make([]string, len(p.Pats))
	for i, s := range p.Pats {
		pats[i] = pfx + s
	}

	var conns []*t38.Conn
	dial := func() *t38.Conn {
		c, err := srv.Dial()
		if err != nil {
			panic("dial: " + err.Error())
		}
		conns = append(conns, c)
		return c
	}
	defer func() {
		for _, c := range conns {
			c.Close()
		}
	}()
	ctl := dial()
	for i, f := range p.Fences {
		if err := mustOK(ctl.Do(append([]string{"SETCHAN", fenceNames[i]}, fenceArgs(f, key)...)...)); err != nil {
			panic(err)
		}
	}
	defer func() {
		c, err := srv.Dial()
		if err != nil {
			return
		}
		defer c.Close()
		for _, fn := range fenceNames {
			c.Do("DELCHAN", fn)
		}
		c.Do("DROP", key)
	}()
	st, err := os.Stat(srv.AOFPath())
	if err != nil {
		panic(err)
	}
	aofStart := st.Size()

	subs := make([]*subRunner, len(p.Subs))
	for i := range p.Subs {
		subs[i] = newSubRunner(i, dial(), endChan)
		if i < len(p.JSONSubs) && p.JSONSubs[i] {
			if err := subs[i].conn.SetJSON(true); err != nil {
				panic(err)
			}
			subs[i].json = true
		}
	}
	pubConns := make([]*t38.Conn, len(p.Pubs))
	for i := range p.Pubs {
		pubConns[i] = dial()
	}
	lives := make([]*liveRunner, len(p.Lives))
	for i := range lives {
		lives[i] = &liveRunner{conn: dial()}
		lives[i].cond = sync.NewCond(&lives[i].mu)
	}

	// concurrent phase
	start := make(chan struct{})
	var wg sync.WaitGroup
	for i, prog := range p.Subs {
		s := subs[i]
		go s.reader()
		wg.Add(1)
		go func(prog []subOp) {
			defer wg.Done()
			<-start
			for k, op := range prog {
				if op.Pause > 0 {
					time.Sleep(time.Duration(op.Pause) * time.Microsecond)
				}
				src := names
				if op.Kind == "psub" || op.Kind == "punsub" {
					src = pats
				}
				args := make([]string, len(op.Names))
				for x, ni := range op.Names {
					args[x] = src[ni]
				}
				s.do(k, op.Kind, args, op.Wait)
			}
			s.waitAcks()
		}(prog)
	}
	ems := make([][]emission, len(p.Pubs)+1)
	for i, prog := range p.Pubs {
		wg.Add(1)
		go func(i int, prog []pubOp) {
			defer wg.Done()
			<-start
			ems[i] = runPublisher(pubConns[i], i, prog, 0, names, key)
		}(i, prog)
	}
	for i, live := range lives {
		go live.run(fenceArgs(p.Lives[i].Fence, key), p.Lives[i].DelayUs)
		if p.Lives[i].Leave != "" {
			live.leftCh = make(chan struct{})
			go live.leave(p.Lives[i].Leave, p.Lives[i].LeaveUs)
		}
	}
	close(start)
	wg.Wait()
	for _, live := range lives {
		live.mu.Lock()
		for !live.acked && !live.done {
			live.cond.Wait()
		}
		live.mu.Unlock()
		if live.leftCh != nil {
			<-live.leftCh // every leaver is gone before the closing writes
		}
	}

	// quiescent phase: the control connection is one more publisher. Two
	// closing writes bound the live stream, one PUBLISH per channel checks the
	// integer reply against a subscription set that no longer changes, and a
	// last PUBLISH on the sentinel channel bounds every subscriber stream.
	ctlIdx := len(p.Pubs)
	var ctlOps []pubOp
	if len(p.Fences) > 0 || len(p.Lives) > 0 {
		// a fresh object visits the inside of every live fence and finally
		// leaves: whatever the DETECT list, each live fence sees at least one
		// notification caused by these closing writes
		for _, l := range p.Lives {
			ctlOps = append(ctlOps, pubOp{Kind: "set", Obj: 9, Pos: l.Fence.Lo})
		}
		if len(p.Lives) == 0 {
			ctlOps = append(ctlOps, pubOp{Kind: "set", Obj: 9, Pos: p.Fences[0].Lo})
		}
		ctlOps = append(ctlOps, pubOp{Kind: "set", Obj: 9, Pos: 0})
	}
	for i := range names {
		ctlOps = append(ctlOps, pubOp{Kind: "pub", Chan: i})
	}
	allNames := append(append([]string{}, names...), endChan)
	ems[ctlIdx] = runPublisher(ctl, ctlIdx, ctlOps, 0, allNames, key)
	for _, s := range subs {
		s.do(len(p.Subs[s.idx]), "sub", []string{endChan}, false)
	}
	for _, s := range subs {
		s.waitAcks()
	}
	ems[ctlIdx] = append(ems[ctlIdx],
		runPublisher(ctl, ctlIdx, []pubOp{{Kind: "pub", Chan: len(names), Text: jsonEndPayload}}, len(ctlOps), allNames, key)...)

	r := &psRun{t0: caseStart, o: o, p: p, names: allNames, fenceNames: fenceNames, key: key, endChan: endChan,
		aofStart: aofStart, subs: subs, lives: lives, ems: ems}
	r.verify()
	if o.key != "" {
		r.writeHistory()
	}
	return o
}

type psRun struct {
	t0         int64
	o          *outcome
	p          psCase
	names      []string
	fenceNames []string
	key        string
	endChan    string
	aofStart   int64
	subs       []*subRunner
	lives      []*liveRunner
	ems        [][]emission
	units      []*unit
	liveExp    [][]string // per live fence: expected notifications (keys) in log order
	liveW      [][]*emission
}

// hookName maps the "hook" member of a notification back to the fence
// channel's real name: inside JSON a name that is not valid UTF-8 can only
// appear with U+FFFD in place of the offending bytes.
func (r *psRun) hookName(inJSON string) string {
	for _, fn := range r.fenceNames {
		if jsonRoundTrip(fn) == inJSON {
			return fn
		}
	}
	return inJSON
}

// hangOrFail turns "nothing arrived within the 30 s budget" into a violation
// only when this process was not itself starved meanwhile.
func (r *psRun) hangOrFail(key, format string, a ...any) {
	if st := mon.MaxSince(r.t0); st > hangStallLimit {
		r.o.inconclusive = fmt.Sprintf("%s, but the test process was stalled for up to %v: %s", key, st, fmt.Sprintf(format, a...))
		return
	}
	r.o.fail(key, format, a...)
}

func (r *psRun) verify() {
	o := r.o
	// 0. every command of every publisher was answered
	for _, es := range r.ems {
		for i := range es {
			e := &es[i]
			if e.Err == "" {
				continue
			}
			if strings.Contains(e.Err, t38.ErrHang.Error()) {
				r.hangOrFail("command-hang", "publisher %d op %d (%s) got no reply within %v", e.Pub, e.Op, e.Kind, t38.ReplyTimeout)
			} else {
				o.fail("command-failed:"+e.Kind, "publisher %d op %d (%s): %s", e.Pub, e.Op, e.Kind, e.Err)
			}
			return
		}
	}
	// 1. every subscriber stream is complete (ends with the sentinel)
	deadline := time.Now().Add(t38.ReplyTimeout + 5*time.Second)
	for _, s := range r.subs {
		s.mu.Lock()
		ok := waitCond(s.cond, deadline, func() bool { return s.done })
		errs, hang, sawEnd, pend := s.err, s.hang, s.sawEnd, len(s.pending)
		s.mu.Unlock()
		switch {
		case !ok || hang:
			r.hangOrFail("delivery-hang", "subscriber %d: the stream did not reach the sentinel within %v (%d acknowledgements outstanding): %s",
				s.idx, t38.ReplyTimeout, pend, errs)
			return
		case errs != "":
			o.fail("subscriber-protocol", "subscriber %d: %s", s.idx, errs)
			return
		case !sawEnd:
			o.fail("subscriber-protocol", "subscriber %d: reader stopped before the sentinel", s.idx)
			return
		}
	}
	// 2. order of the writes in the append-only file
	if !r.buildUnits() {
		return
	}
	// 3. live fence stream
	for i := range r.lives {
		if !r.checkLive(i) {
			return
		}
	}
	// 4. per-subscriber oracle
	byKey := map[string]*unit{}
	for _, u := range r.units {
		byKey[u.Key] = u
	}
	var overlaps []string
	for _, s := range r.subs {
		if !r.checkSubscriber(s, byKey, &overlaps) {
			return
		}
	}
	// 5. PUBLISH replies
	for _, u := range r.units {
		if !u.IsPub {
			continue
		}
		if int(u.Reply) < u.lower || int(u.Reply) > u.upper {
			o.fail("publish-count", "PUBLISH %s %s answered %d, but between %d and %d subscriptions matched (registered for certain: %d)",
				u.Channel, u.Key, u.Reply, u.lower, u.upper, u.lower)
			return
		}
		if int(u.Reply) != u.copies {
			o.fail("publish-count-vs-deliveries", "PUBLISH %s %s answered %d but %d copies were delivered before the stream sentinels",
				u.Channel, u.Key, u.Reply, u.copies)
			return
		}
		if u.Pub == len(r.p.Pubs) && u.Channel != r.endChan {
			if u.lower != u.upper {
				panic(fmt.Sprintf("harness self-check: quiescent PUBLISH has uncertain subscriptions (%d..%d)", u.lower, u.upper))
			}
			if u.Reply > 0 {
				o.label("quiescent-count>0")
			}
			if u.Reply > 1 {
				o.label("quiescent-count>1")
			}
		}
	}
	// evidence
	if len(overlaps) > 0 {
		sort.Strings(overlaps)
		var cls []string
		for _, ov := range overlaps {
			if len(cls) == 0 || cls[len(cls)-1] != ov {
				cls = append(cls, ov)
			}
		}
		o.ntKey = jsonStr(r.p) + "#" + strings.Join(cls, ",")
	}
}

// buildUnits reads the part of the append-only file written by this case,
// replays the fence model in log order and lists every server-side Publish
// call the history must have made.
func (r *psRun) buildUnits() bool {
	o := r.o
	b, err := os.ReadFile(srv.AOFPath())
	if err != nil || int64(len(b)) < r.aofStart {
		panic(fmt.Sprintf("reading the append-only file: %v (len %d, start %d)", err, len(b), r.aofStart))
	}
	cmds, _, perr := t38.ParseAOFBytes(b[r.aofStart:])
	if perr != nil {
		o.fail("aof-unparsable", "append-only file: %v", perr)
		return false
	}
	bySeq := map[int]*emission{}
	for _, es := range r.ems {
		for i := range es {
			if es[i].Kind == "set" {
				bySeq[es[i].Seq] = &es[i]
			}
		}
	}
	var order []*emission
	seen := map[int]bool{}
	for _, c := range cmds {
		if len(c.Args) != 6 || !strings.EqualFold(c.Args[0], "set") || c.Args[1] != r.key {
			continue
		}
		lat, _ := strconv.ParseFloat(c.Args[4], 64)
		seq := int(math.Round(lat * 1e6))
		e := bySeq[seq]
		if e == nil {
			o.fail("aof-foreign-write", "append-only file holds a SET on %s that no client sent: %q", r.key, c.Args)
			return false
		}
		if seen[seq] {
			o.fail("aof-duplicate-write", "append-only file holds SET seq %d twice", seq)
			return false
		}
		seen[seq] = true
		order = append(order, e)
	}
	for seq, e := range bySeq {
		if !seen[seq] {
			o.fail("aof-acked-write-missing", "acknowledged SET (publisher %d op %d) is not in the append-only file", e.Pub, e.Op)
			return false
		}
	}
	// PUBLISH units
	for _, es := range r.ems {
		for i := range es {
			e := &es[i]
			if e.Kind == "pub" {
				r.units = append(r.units, &unit{Key: e.Payload, Channel: e.Channel, Pub: e.Pub, Op: e.Op, E: -1,
					Send: e.Send, Recv: e.Recv, Reply: e.Reply, IsPub: true})
			}
		}
	}
	// fence units in log order
	r.liveExp = make([][]string, len(r.p.Lives))
	r.liveW = make([][]*emission, len(r.p.Lives))
	for _, fn := range r.fenceNames {
		if !utf8.ValidString(fn) {
			o.label("fence-channel-name-not-utf8")
		} else if fn != jsonRoundTrip(fn) || strings.ContainsAny(fn, " \"\x00\t\\") || len(fn) > 1000 {
			o.label("fence-channel-name-hostile")
		}
	}
	pos := map[int]int{}
	perFence := map[int]int{}
	eidx := 0
	type fev struct {
		name, detect string
	}
	for _, e := range order {
		var old *int
		if v, ok := pos[e.Obj]; ok {
			old = &v
		}
		var evs []fev
		for fi, f := range r.p.Fences {
			for _, d := range fenceEvents(f, old, e.Pos) {
				evs = append(evs, fev{r.fenceNames[fi], d})
			}
		}
		sort.SliceStable(evs, func(i, j int) bool {
			if ci, cj := detectCode(evs[i].detect), detectCode(evs[j].detect); ci != cj {
				return ci < cj
			}
			return evs[i].name < evs[j].name
		})
		for k, fe := range evs {
			r.units = append(r.units, &unit{Key: fenceKey(e.Seq, fe.name, fe.detect), Channel: fe.name, Pub: e.Pub, Op: e.Op,
				Sub: k, E: eidx, Send: e.Send, Recv: e.Recv})
			eidx++
		}
		if len(evs) > 0 {
			o.label("fence-notifications")
		}
		if len(evs) > 2 {
			o.label("write-with>2-notifications")
		}
		for fi, f := range r.p.Fences {
			if len(fenceEvents(f, old, e.Pos)) > 0 {
				perFence[fi]++
				lim := f.Limit
				if lim == 0 {
					lim = 100
				}
				if perFence[fi] == lim+1 {
					if f.Limit > 0 {
						o.label("channel-fence-notified-beyond-its-LIMIT")
					} else {
						o.label("channel-fence-with>100-notifying-writes")
					}
				}
			}
		}
		for li, l := range r.p.Lives {
			for _, d := range fenceEvents(l.Fence, old, e.Pos) {
				r.liveExp[li] = append(r.liveExp[li], fenceKey(e.Seq, "", d))
				r.liveW[li] = append(r.liveW[li], e)
			}
		}
		pos[e.Obj] = e.Pos
	}
	if len(order) > 1 {
		for i := 1; i < len(order); i++ {
			if order[i].Pub != order[i-1].Pub && order[i].Send < order[i-1].Recv && order[i-1].Send < order[i].Recv {
				o.label("concurrent-writers-ordered-by-log")
				break
			}
		}
	}
	return true
}

func (r *psRun) checkLive(li int) bool {
	o, l := r.o, r.lives[li]
	liveExp, liveW := r.liveExp[li], r.liveW[li]
	if len(r.lives) > 1 {
		o.label("several-live-fences")
	}
	l.mu.Lock()
	defer l.mu.Unlock()
	if !l.acked {
		if l.hang {
			r.hangOrFail("live-hang", "live fence command was not acknowledged: %s", l.err)
		} else {
			o.fail("live-protocol", "live fence: %s", l.err)
		}
		return false
	}
	index := map[string]int{}
	for i, k := range liveExp {
		index[k] = i
	}
	leaver := r.p.Lives[li].Leave != ""
	if len(liveExp) == 0 && !leaver {
		panic("harness self-check: closing writes produced no live notification: " + jsonStr(r.p))
	}
	last := ""
	if len(liveExp) > 0 {
		last = liveExp[len(liveExp)-1]
	}
	decode := func(d liveDel) (string, bool) {
		m, seq, ok := decodeFence(d.Payload)
		if !ok || m.Hook != "" || m.Key != r.key {
			return "", false
		}
		return fenceKey(seq, "", m.Detect), true
	}
	ok := waitCond(l.cond, time.Now().Add(t38.ReplyTimeout), func() bool {
		if l.done {
			return true
		}
		if leaver {
			return false // its stream ends with the connection
		}
		if n := len(l.dels); n > 0 {
			if k, ok := decode(l.dels[n-1]); ok && k == last {
				return true
			}
		}
		return false
	})
	if leaver {
		if !ok || l.err != "" {
			if !ok || l.hang {
				r.hangOrFail("live-hang", "live fence connection that sent %s was not closed by the server within %v: %s", r.p.Lives[li].Leave, t38.ReplyTimeout, l.err)
			} else {
				o.fail("live-protocol", "live fence (leaving): %s", l.err)
			}
			return false
		}
		o.label("live-left:" + r.p.Lives[li].Leave)
	} else if !ok || l.done {
		if !ok || l.hang {
			r.hangOrFail("live-lost", "live fence connection never received the notification of the closing write (%d of %d received): %s",
				len(l.dels), len(liveExp), l.err)
		} else {
			o.fail("live-protocol", "live fence: %s", l.err)
		}
		return false
	}
	got := map[int]int{}
	prev := -1
	for _, d := range l.dels {
		k, ok := decode(d)
		idx, known := index[k]
		if !ok || !known {
			o.fail("live-unknown-message", "live fence connection received a notification no write explains: %s", d.Payload)
			return false
		}
		got[idx]++
		if got[idx] > 1 {
			o.fail("live-duplicate", "live fence connection received %s twice", k)
			return false
		}
		if idx < prev {
			o.fail("live-order", "live fence connection received %s after %s, against the order of the writes in the log", k, liveExp[prev])
			return false
		}
		prev = idx
	}
	// a connection that left is only checked for order, duplicates and
	// foreign messages: notifications are handed over asynchronously, so what
	// was still on its way when it went is not owed to it
	churnBefore := int64(math.MaxInt64) // earliest instant at which another live fence had left
	for oi, ol := range r.lives {
		if oi != li && r.p.Lives[oi].Leave != "" && ol.LeaveT > 0 && ol.LeaveT < churnBefore {
			churnBefore = ol.LeaveT
		}
	}
	for i, k := range liveExp {
		if leaver {
			break
		}
		w := liveW[i]
		if l.Ack < w.Send && churnBefore < w.Send {
			o.label("live-survivor-notified-after-another-left")
		}
		switch {
		case l.Ack < w.Send:
			if got[i] != 1 {
				o.fail("live-lost", "live fence acknowledged before the SET was sent, but %s was not delivered", k)
				return false
			}
			o.label("live-fence-delivery")
		case w.Recv < l.Send:
			// Not demanded by the property and not guaranteed by the server:
			// writes are handed to live connections by a background goroutine,
			// so while any other live fence exists a fence opened just after a
			// write may still be given that write's notification. Mirrored, not
			// reported.
			if got[i] != 0 {
				o.label("impl-mirrored:live-fence-got-earlier-write")
			}
		default:
			o.label("live-fence-overlap")
		}
	}
	return true
}

func (r *psRun) checkSubscriber(s *subRunner, byKey map[string]*unit, overlaps *[]string) bool {
	o := r.o
	recsBySub := map[string][]*ackRec{}
	for _, a := range s.acks {
		k := "c:" + a.Name
		if a.Cmd == "psubscribe" || a.Cmd == "punsubscribe" {
			k = "p:" + a.Name
		}
		recsBySub[k] = append(recsBySub[k], a)
	}
	tls := map[string]timeline{}
	for k, recs := range recsBySub {
		tls[k] = buildTimeline(recs)
	}
	if s.json {
		return r.checkJSONSubscriber(s, byKey, tls, overlaps)
	}
	counts := map[string]map[string]int{} // unit key -> subscription -> copies
	lastOp := map[int][2]int{}
	lastE, lastEKey := -1, ""
	for _, d := range s.dels {
		ukey := d.Payload
		if !strings.HasPrefix(ukey, "m|") {
			m, seq, ok := decodeFence(d.Payload)
			if !ok {
				o.fail("unknown-message", "subscriber %d received a message nobody published: %q on %s", s.idx, d.Payload, d.Channel)
				return false
			}
			ukey = fenceKey(seq, r.hookName(m.Hook), m.Detect)
		}
		u := byKey[ukey]
		if u == nil {
			o.fail("unknown-message", "subscriber %d received a message nobody published: %q on %s", s.idx, d.Payload, d.Channel)
			return false
		}
		if _, asked := tls[d.Sub]; !asked || d.Channel != u.Channel || !subMatches(d.Sub, d.Channel) {
			o.fail("misrouted", "subscriber %d received %s (published on %s) as channel %s via %s", s.idx, ukey, u.Channel, d.Channel, d.Sub)
			return false
		}
		if counts[ukey] == nil {
			counts[ukey] = map[string]int{}
		}
		counts[ukey][d.Sub]++
		if counts[ukey][d.Sub] > 1 {
			o.fail("duplicate", "subscriber %d received %s twice through the single subscription %s", s.idx, ukey, d.Sub)
			return false
		}
		if len(counts[ukey]) > 1 {
			o.label("one-message-several-subscriptions")
		}
		if strings.HasPrefix(d.Sub, "p:") {
			o.label("pattern-delivery")
		}
		cur := [2]int{u.Op, u.Sub}
		if prev, ok := lastOp[u.Pub]; ok && (cur[0] < prev[0] || (cur[0] == prev[0] && cur[1] < prev[1])) {
			o.fail("publisher-order", "subscriber %d received %s after a later message (op %d.%d) of the same publisher %d",
				s.idx, ukey, prev[0], prev[1], u.Pub)
			return false
		}
		lastOp[u.Pub] = cur
		if u.E >= 0 {
			if u.E < lastE {
				o.fail("fence-order", "subscriber %d received fence notification %s after %s, against log order / within-write order",
					s.idx, ukey, lastEKey)
				return false
			}
			lastE, lastEKey = u.E, ukey
		}
	}
	for _, u := range r.units {
		for sk, tl := range tls {
			if !subMatches(sk, u.Channel) {
				continue
			}
			st, why := tl.status(u.Send, u.Recv)
			n := counts[u.Key][sk]
			u.copies += n
			switch st {
			case stMust:
				u.lower++
				u.upper++
				if n != 1 {
					key := "lost"
					if !u.IsPub && !utf8.ValidString(u.Channel) && n == 0 {
						key = findingNameUTF8
					}
					o.fail(key, "subscriber %d: subscription %q was acknowledged before %q was sent and not cancelled before it was answered, but the message was not delivered",
						s.idx, sk, u.Key)
					return false
				}
			case stMustNot:
				if n != 0 {
					o.fail("delivered-while-unsubscribed", "subscriber %d received %s through %s although that subscription was certainly not registered while it was published",
						s.idx, u.Key, sk)
					return false
				}
			default:
				u.upper++
				kind := "pub"
				if !u.IsPub {
					kind = "fence"
				}
				cls := fmt.Sprintf("overlap:%s:%s:%c:delivered=%d", why, kind, sk[0], n)
				o.label(cls)
				*overlaps = append(*overlaps, cls)
			}
		}
	}
	return true
}

// checkJSONSubscriber is the oracle for a subscriber in OUTPUT json mode: its
// messages do not say through which subscription they came, so copies are
// counted per message and compared with the number of matching subscriptions
// that certainly / possibly were registered.
func (r *psRun) checkJSONSubscriber(s *subRunner, byKey map[string]*unit, tls map[string]timeline, overlaps *[]string) bool {
	o := r.o
	o.label("json-mode-subscriber")
	counts := map[string]int{}
	lastOp := map[int][2]int{}
	lastE, lastEKey := -1, ""
	for _, d := range s.dels {
		ukey := d.Payload
		if !strings.HasPrefix(ukey, "m|") {
			m, seq, ok := decodeFence(d.Payload)
			if !ok {
				o.fail("unknown-message", "JSON-mode subscriber %d received a message nobody published: %q", s.idx, d.Payload)
				return false
			}
			ukey = fenceKey(seq, r.hookName(m.Hook), m.Detect)
		}
		u := byKey[ukey]
		if u == nil {
			o.fail("unknown-message", "JSON-mode subscriber %d received a message nobody published: %q", s.idx, d.Payload)
			return false
		}
		counts[ukey]++
		cur := [2]int{u.Op, u.Sub}
		if prev, ok := lastOp[u.Pub]; ok && (cur[0] < prev[0] || (cur[0] == prev[0] && cur[1] < prev[1])) {
			o.fail("publisher-order", "JSON-mode subscriber %d received %s after a later message (op %d.%d) of the same publisher %d",
				s.idx, ukey, prev[0], prev[1], u.Pub)
			return false
		}
		lastOp[u.Pub] = cur
		if u.E >= 0 {
			if u.E < lastE {
				o.fail("fence-order", "JSON-mode subscriber %d received fence notification %s after %s, against log order / within-write order",
					s.idx, ukey, lastEKey)
				return false
			}
			lastE, lastEKey = u.E, ukey
		}
	}
	for _, u := range r.units {
		lower, upper := 0, 0
		for sk, tl := range tls {
			if !subMatches(sk, u.Channel) {
				continue
			}
			st, why := tl.status(u.Send, u.Recv)
			switch st {
			case stMust:
				lower++
				upper++
			case stMay:
				upper++
				kind := "pub"
				if !u.IsPub {
					kind = "fence"
				}
				cls := fmt.Sprintf("overlap:%s:%s:%c:json", why, kind, sk[0])
				o.label(cls)
				*overlaps = append(*overlaps, cls)
			}
		}
		n := counts[u.Key]
		u.copies += n
		u.lower += lower
		u.upper += upper
		switch {
		case n < lower:
			o.fail("lost", "JSON-mode subscriber %d: %d matching subscriptions were acknowledged before %s was sent and not cancelled before it was answered, but only %d copies were delivered",
				s.idx, lower, u.Key, n)
			return false
		case n > upper && upper == 0:
			o.fail("delivered-while-unsubscribed", "JSON-mode subscriber %d received %s although no matching subscription can have been registered while it was published", s.idx, u.Key)
			return false
		case n > upper:
			o.fail("duplicate", "JSON-mode subscriber %d received %d copies of %s with at most %d matching subscriptions", s.idx, n, u.Key, upper)
			return false
		}
	}
	return true
}

func (r *psRun) writeHistory() {
	o := r.o
	for _, es := range r.ems {
		for _, e := range es {
			if e.Kind == "pub" {
				o.hist("pub%d.%d PUBLISH %s %s [%d,%d] -> %d %s", e.Pub, e.Op, e.Channel, e.Payload, e.Send, e.Recv, e.Reply, e.Err)
			} else {
				o.hist("pub%d.%d SET %s o%d pos=%d seq=%d [%d,%d] %s", e.Pub, e.Op, r.key, e.Obj, e.Pos, e.Seq, e.Send, e.Recv, e.Err)
			}
		}
	}
	for _, s := range r.subs {
		s.mu.Lock()
		for _, a := range s.acks {
			o.hist("sub%d.%d %s %s sent=%d acked=%d", s.idx, a.Op, a.Cmd, a.Name, a.Send, a.Ack)
		}
		for _, d := range s.dels {
			o.hist("sub%d <- t=%d via %s chan=%s %s", s.idx, d.T, d.Sub, d.Channel, d.Payload)
		}
		s.mu.Unlock()
	}
	for li, l := range r.lives {
		l.mu.Lock()
		o.hist("live%d sent=%d acked=%d", li, l.Send, l.Ack)
		for _, d := range l.dels {
			o.hist("live%d <- t=%d %s", li, d.T, d.Payload)
		}
		l.mu.Unlock()
	}
}

package c10

import (
	"bytes"
	"encoding/json"
	"fmt"
	"io"
	"net"
	"net/http"
	"os"
	"strconv"
	"strings"
	"sync"
	"sync/atomic"
	"time"
	"unicode/utf8"

	"github.com/tidwall/tile38/verif/harness/t38"
	"pgregory.net/rapid"
)

// ---- case description (also the replay document) ------------------------------

type epAction struct {
	Kind     string `json:"k"` // ok | 500 | reset | crash | hang
	DelayMs  int    `json:"delay_ms,omitempty"`
	RefuseMs int    `json:"refuse_ms,omitempty"` // crash: how long the listener stays closed afterwards
	Hold     bool   `json:"hold,omitempty"`      // the request is kept unanswered until the test releases the endpoint's gate
}

type whHook struct {
	Key           int        `json:"key"`
	Fence         fenceSpec  `json:"fence"` // Cmd may also be NEARBY
	Meta          bool       `json:"meta,omitempty"`
	StartClosedMs int        `json:"start_closed_ms,omitempty"`
	Script        []epAction `json:"script"`              // consumed one per arriving request; afterwards always ok
	NameTail      int        `json:"name_tail,omitempty"` // index into hostileTail, appended to hook and twin name
}

type whWrite struct {
	Kind string `json:"k"` // set | del | fset | drop
	Obj  int    `json:"o"`
	Pos  int    `json:"p"`
}

type whBurst struct {
	Writes  []whWrite `json:"w"`
	Pipe    bool      `json:"pipe,omitempty"`
	PauseMs int       `json:"pause_ms,omitempty"`
}

type whWriter struct {
	Key    int       `json:"key"`
	Bursts []whBurst `json:"bursts"`
}

type whCase struct {
	NKeys   int        `json:"nkeys"`
	Hooks   []whHook   `json:"hooks"`
	Writers []whWriter `json:"writers"`
}

func actionCostMs(a epAction) int {
	switch a.Kind {
	case "500", "reset":
		return 500 + a.DelayMs
	case "crash":
		return a.RefuseMs + 1000 + a.DelayMs
	case "hang":
		return 5600
	}
	return a.DelayMs
}

func drawFailure(rt *rapid.T, hang bool, budget *int) (epAction, bool) {
	kinds := []string{"500", "500", "crash", "crash", "reset"}
	if hang {
		kinds = append(kinds, "hang")
	}
	a := epAction{Kind: rapid.SampledFrom(kinds).Draw(rt, "failkind")}
	switch a.Kind {
	case "500":
		a.DelayMs = rapid.IntRange(0, 30).Draw(rt, "faildelay")
	case "crash":
		a.RefuseMs = rapid.IntRange(0, 1200).Draw(rt, "refuse")
	}
	if c := actionCostMs(a); c <= *budget {
		*budget -= c
		return a, true
	}
	if 500 <= *budget {
		*budget -= 500
		return epAction{Kind: "500"}, true
	}
	return a, false
}

func drawWHCase(rt *rapid.T, thorough bool) whCase {
	var p whCase
	nh := rapid.IntRange(1, 3).Draw(rt, "nhooks")
	p.NKeys = rapid.IntRange(1, nh).Draw(rt, "nkeys")
	for i := 0; i < nh; i++ {
		h := whHook{Key: i % p.NKeys, Fence: drawFence(rt, fmt.Sprintf("h%d", i))}
		if rapid.IntRange(0, 2).Draw(rt, "nearby") == 0 {
			h.Fence.Cmd = "NEARBY"
		}
		h.Meta = rapid.IntRange(0, 3).Draw(rt, "meta") == 0
		h.NameTail = drawTail(rt, "nametail", allowInvalidNames)
		budget := 2500
		if thorough {
			budget = rapid.SampledFrom([]int{1500, 3000, 6000, 9000}).Draw(rt, "budget")
		}
		if rapid.IntRange(0, 4).Draw(rt, "startclosed") == 0 {
			h.StartClosedMs = rapid.IntRange(50, 900).Draw(rt, "startclosedms")
			budget -= h.StartClosedMs + 500
		}
		groups := rapid.IntRange(1, 3).Draw(rt, "groups")
		for g := 0; g < groups; g++ {
			nok := rapid.IntRange(0, 5).Draw(rt, "nok")
			for k := 0; k < nok; k++ {
				a := epAction{Kind: "ok"}
				// a slow 200 lets the queue fill up behind it, so that the next
				// batch is long and a failure lands inside it
				if slow := rapid.IntRange(0, 5).Draw(rt, "okslow"); slow == 0 || (k == 0 && slow < 4) {
					a.DelayMs = rapid.IntRange(1, 60).Draw(rt, "okdelay")
				}
				h.Script = append(h.Script, a)
			}
			nfail := rapid.IntRange(1, 3).Draw(rt, "nfail")
			for k := 0; k < nfail; k++ {
				if a, ok := drawFailure(rt, thorough, &budget); ok {
					h.Script = append(h.Script, a)
				}
			}
		}
		p.Hooks = append(p.Hooks, h)
	}
	nw := rapid.IntRange(p.NKeys, p.NKeys+1).Draw(rt, "nwriters")
	// a share of the cases is long: the first writer alone causes more
	// notifications than the default fence LIMIT of 100 on every hook of key 0
	long := rapid.IntRange(0, 5).Draw(rt, "long") == 0
	if long {
		for i := range p.Hooks {
			if p.Hooks[i].Key == 0 {
				p.Hooks[i].Fence.Detect = nil
			}
		}
	}
	for i := 0; i < nw; i++ {
		w := whWriter{Key: i % p.NKeys}
		nb := rapid.IntRange(2, 5).Draw(rt, "nbursts")
		if long && i == 0 {
			nb = rapid.IntRange(12, 14).Draw(rt, "nlongbursts")
		}
		for b := 0; b < nb; b++ {
			bu := whBurst{Pipe: rapid.IntRange(0, 3).Draw(rt, "pipe") != 0, PauseMs: rapid.SampledFrom([]int{0, 0, 5, 30, 120, 400}).Draw(rt, "pause")}
			n := rapid.IntRange(3, 12).Draw(rt, "burstlen")
			if long && i == 0 {
				n, bu.Pipe = rapid.IntRange(10, 12).Draw(rt, "longburstlen"), true
				if bu.PauseMs > 30 {
					bu.PauseMs = 30
				}
			}
			for k := 0; k < n; k++ {
				wr := whWrite{Kind: "set", Obj: rapid.IntRange(0, 3).Draw(rt, "obj"), Pos: rapid.IntRange(0, 7).Draw(rt, "pos")}
				switch x := rapid.IntRange(0, 49).Draw(rt, "wkind"); {
				case x < 5:
					wr.Kind = "del"
				case x < 9:
					wr.Kind = "fset"
				case x == 9:
					wr.Kind = "drop"
				}
				bu.Writes = append(bu.Writes, wr)
			}
			w.Bursts = append(w.Bursts, bu)
		}
		p.Writers = append(p.Writers, w)
	}
	return p
}

// ---- the scripted endpoint -------------------------------------------------------

type arrival struct {
	T       int64
	Body    string
	Action  string
	Backlog int // notifications seen on the twin channel but not yet answered 200
}

type endpoint struct {
	addr string // ip:port, fixed for the life of the endpoint
	path string
	twin *atomic.Int64

	mu        sync.Mutex
	cond      *sync.Cond
	srv       *http.Server
	script    []epAction
	next      int
	arrivals  []arrival
	ok        []string
	okT       []int64
	slowest   time.Duration // longest time between a request's arrival and its 200 being flushed
	listenErr string
	closed    bool          // closed for good
	force     string        // when set, every request gets this action and the script is not consumed
	gate      chan struct{} // closed by the test to release requests whose action has Hold
}

var epIP = fmt.Sprintf("127.77.%d.%d", (os.Getpid()>>8)&255, os.Getpid()&255)

var (
	epPortMu   sync.Mutex
	epPortUsed = map[string]bool{}
)

// newEndpoint reserves an address for the endpoint. The listener is not kept
// open (an endpoint may have to refuse connections from the start), so the
// address is remembered process-wide and never handed out twice: two
// endpoints must never share a port, or one hook's requests would reach the
// other hook's script.
func newEndpoint(script []epAction, twin *atomic.Int64, path string) (*endpoint, error) {
	epPortMu.Lock()
	defer epPortMu.Unlock()
	for try := 0; try < 200; try++ {
		ln, err := net.Listen("tcp", epIP+":0")
		if err != nil {
			return nil, err
		}
		addr := ln.Addr().String()
		ln.Close()
		if epPortUsed[addr] {
			continue
		}
		epPortUsed[addr] = true
		e := &endpoint{addr: addr, path: path, script: script, twin: twin}
		e.cond = sync.NewCond(&e.mu)
		return e, nil
	}
	return nil, fmt.Errorf("no unused port on %s", epIP)
}

func (e *endpoint) url() string { return "http://" + e.addr + e.path }

// open starts (or restarts) listening on the endpoint's address.
func (e *endpoint) open() {
	e.mu.Lock()
	defer e.mu.Unlock()
	if e.closed || e.srv != nil {
		return
	}
	var ln net.Listener
	var err error
	for i := 0; i < 50; i++ {
		ln, err = net.Listen("tcp", e.addr)
		if err == nil {
			break
		}
		time.Sleep(10 * time.Millisecond)
	}
	if err != nil {
		e.listenErr = err.Error()
		e.cond.Broadcast()
		return
	}
	e.srv = &http.Server{Handler: e}
	go e.srv.Serve(ln)
}

// shut closes the listener and every open connection: from now on connection
// attempts are refused.
func (e *endpoint) shut(final bool) {
	e.mu.Lock()
	s := e.srv
	e.srv = nil
	if final {
		e.closed = true
	}
	e.mu.Unlock()
	if s != nil {
		s.Close()
	}
}

// canonBody removes the fields that legitimately differ between a hook and
// its twin channel (the hook's own name and the per-hook group id) and
// re-serialises the rest canonically.
func canonBody(b []byte) string {
	dec := json.NewDecoder(bytes.NewReader(b))
	dec.UseNumber()
	var m map[string]any
	if err := dec.Decode(&m); err != nil {
		return "!unparsable:" + string(b)
	}
	delete(m, "hook")
	delete(m, "group")
	out, _ := json.Marshal(m)
	return string(out)
}

func (e *endpoint) ServeHTTP(w http.ResponseWriter, r *http.Request) {
	body, _ := io.ReadAll(r.Body)
	t := now()
	e.mu.Lock()
	act := epAction{Kind: "ok"}
	if e.force != "" {
		act = epAction{Kind: e.force}
	} else {
		if e.next < len(e.script) {
			act = e.script[e.next]
		}
		e.next++
	}
	cb := canonBody(body)
	if r.Method != "POST" || r.URL.Path != e.path {
		cb = "!wrong-request:" + r.Method + " " + r.URL.Path + " " + cb
	}
	e.arrivals = append(e.arrivals, arrival{T: t, Body: cb, Action: act.Kind, Backlog: int(e.twin.Load()) - len(e.ok)})
	e.cond.Broadcast()
	e.mu.Unlock()
	if act.DelayMs > 0 {
		time.Sleep(time.Duration(act.DelayMs) * time.Millisecond)
	}
	if act.Hold && e.gate != nil {
		select {
		case <-e.gate:
		case <-r.Context().Done():
		case <-time.After(20 * time.Second):
		}
	}
	switch act.Kind {
	case "ok":
		e.mu.Lock()
		e.ok = append(e.ok, cb)
		e.okT = append(e.okT, now())
		e.cond.Broadcast()
		e.mu.Unlock()
		w.WriteHeader(http.StatusOK)
		http.NewResponseController(w).Flush()
		d := time.Duration(now() - t)
		e.mu.Lock()
		if d > e.slowest {
			e.slowest = d
		}
		e.mu.Unlock()
	case "500":
		w.WriteHeader(http.StatusInternalServerError)
	case "reset":
		// the connection is torn down (RST) instead of an answer
		if hj, ok := w.(http.Hijacker); ok {
			if c, _, err := hj.Hijack(); err == nil {
				if tc, ok := c.(*net.TCPConn); ok {
					tc.SetLinger(0)
				}
				c.Close()
				return
			}
		}
		panic(http.ErrAbortHandler)
	case "crash":
		// the endpoint dies while handling this request: no response, the
		// connection and the listener are closed, and it comes back later
		e.shut(false)
		time.AfterFunc(time.Duration(act.RefuseMs)*time.Millisecond, e.open)
		panic(http.ErrAbortHandler)
	case "hang":
		// never answer; the sender gives up after its 5 s timeout
		select {
		case <-r.Context().Done():
		case <-time.After(9 * time.Second):
		}
		panic(http.ErrAbortHandler)
	}
}

// ---- twin channel reader -----------------------------------------------------------

type twinReader struct {
	conn  *t38.Conn
	name  string
	count atomic.Int64
	mu    sync.Mutex
	msgs  []string
	err   string
	hang  bool
	done  chan struct{}
	// restart support: a "SYNC" payload is reported on sync; when
	// expectClose is set a read error ends the reader silently (the server is
	// being stopped on purpose) and stopped is closed instead of done
	sync        chan struct{}
	expectClose atomic.Bool
	stopped     chan struct{}
}

func (tw *twinReader) run() {
	conn := tw.conn
	stopped := tw.stopped
	finished := false
	defer func() {
		if finished || stopped == nil {
			close(tw.done)
		} else {
			close(stopped)
		}
	}()
	for {
		v, err := conn.RecvTimeout(2 * t38.ReplyTimeout)
		if err != nil {
			if tw.expectClose.Load() && stopped != nil {
				return
			}
			finished = true
			tw.mu.Lock()
			tw.err, tw.hang = err.Error(), err == t38.ErrHang
			tw.mu.Unlock()
			return
		}
		if v.Kind != '*' || len(v.Arr) != 3 || v.Arr[0].Str != "message" || v.Arr[1].Str != tw.name {
			tw.mu.Lock()
			tw.err = "unexpected value on the twin subscription: " + v.String()
			tw.mu.Unlock()
			finished = true
			return
		}
		if v.Arr[2].Str == "END" {
			finished = true
			return
		}
		if v.Arr[2].Str == "SYNC" && tw.sync != nil {
			tw.sync <- struct{}{}
			continue
		}
		tw.mu.Lock()
		tw.msgs = append(tw.msgs, canonBody([]byte(v.Arr[2].Str)))
		tw.mu.Unlock()
		tw.count.Add(1)
	}
}

// ---- execution -------------------------------------------------------------------

func hookFenceArgs(f fenceSpec, key string) []string {
	if f.Cmd != "NEARBY" {
		return fenceArgs(f, key)
	}
	a := []string{"NEARBY", key}
	if f.Limit > 0 {
		a = append(a, "LIMIT", strconv.Itoa(f.Limit))
	}
	a = append(a, "FENCE")
	if f.Detect != nil {
		a = append(a, "DETECT", strings.Join(f.Detect, ","))
	}
	center := float64(f.Lo+f.Hi) / 2
	radius := (float64(f.Hi-f.Lo)/2 + 0.4) * 111000
	return append(a, "POINT", "0", fmt.Sprintf("%.1f", center), fmt.Sprintf("%.0f", radius))
}

// twinFenceArgs is the same fence for the twin channel, but with a LIMIT far
// above anything a case produces: the twin is the reference, it must not
// share a limit-related fate with the hook.
func twinFenceArgs(f fenceSpec, key string) []string {
	f.Limit = 1000000
	return hookFenceArgs(f, key)
}

type whRun struct {
	o     *outcome
	p     whCase
	eps   []*endpoint
	twins []*twinReader
	t0    int64
}

func runWebhook(p whCase) *outcome {
	o := &outcome{}
	n := caseSeq.Add(1)
	keys := make([]string, p.NKeys)
	for i := range keys {
		keys[i] = fmt.Sprintf("w%dk%d", n, i)
	}
	var conns []*t38.Conn
	dial := func() *t38.Conn {
		c, err := srv.Dial()
		if err != nil {
			panic("dial: " + err.Error())
		}
		conns = append(conns, c)
		return c
	}
	r := &whRun{o: o, p: p, t0: now()}
	ctl := dial()
	hookName := func(i int) string { return fmt.Sprintf("w%dh%d", n, i) + tailOf([]int{p.Hooks[i].NameTail}, 0) }
	twinName := func(i int) string { return fmt.Sprintf("w%dt%d", n, i) + tailOf([]int{p.Hooks[i].NameTail}, 0) }
	defer func() {
		for _, e := range r.eps {
			e.shut(true)
		}
		if c, err := srv.Dial(); err == nil {
			for i := range p.Hooks {
				c.Do("DELHOOK", hookName(i))
				c.Do("DELCHAN", twinName(i))
			}
			for _, k := range keys {
				c.Do("DROP", k)
			}
			c.Close()
		}
		for _, c := range conns {
			c.Close()
		}
	}()

	// set-up: twin channel + subscriber first, then the hook
	for i, h := range p.Hooks {
		tw := &twinReader{conn: dial(), name: twinName(i), done: make(chan struct{})}
		r.twins = append(r.twins, tw)
		ep, err := newEndpoint(h.Script, &tw.count, fmt.Sprintf("/hook/%d", i))
		if err != nil {
			o.inconclusive = "cannot create the local endpoint: " + err.Error()
			return o
		}
		r.eps = append(r.eps, ep)
		fargs := hookFenceArgs(h.Fence, keys[h.Key])
		var meta []string
		if h.Meta {
			meta = []string{"META", "fleet", fmt.Sprintf("f%d", i), "META", "a", "b c"}
		}
		if err := mustOK(ctl.Do(append(append([]string{"SETCHAN", tw.name}, meta...), twinFenceArgs(h.Fence, keys[h.Key])...)...)); err != nil {
			panic(fmt.Sprintf("SETCHAN: %v", err))
		}
		v, err := tw.conn.Do("SUBSCRIBE", tw.name)
		if err != nil || v.Kind != '*' || len(v.Arr) != 3 || v.Arr[0].Str != "subscribe" {
			panic(fmt.Sprintf("SUBSCRIBE twin: %v %v", v, err))
		}
		go tw.run()
		if err := mustOK(ctl.Do(append(append([]string{"SETHOOK", hookName(i), ep.url()}, meta...), fargs...)...)); err != nil {
			panic(fmt.Sprintf("SETHOOK: %v", err))
		}
	}
	for i, h := range p.Hooks {
		if h.StartClosedMs > 0 {
			time.AfterFunc(time.Duration(h.StartClosedMs)*time.Millisecond, r.eps[i].open)
			o.label("fault:refused-from-the-start")
		} else {
			r.eps[i].open()
		}
	}

	// writers
	var wg sync.WaitGroup
	werrs := make([]string, len(p.Writers))
	for wi, w := range p.Writers {
		wg.Add(1)
		conn := dial()
		go func(wi int, w whWriter) {
			defer wg.Done()
			seq := (wi + 1) * 1000
			for _, b := range w.Bursts {
				if b.PauseMs > 0 {
					time.Sleep(time.Duration(b.PauseMs) * time.Millisecond)
				}
				cmds := make([][]string, 0, len(b.Writes))
				for _, wr := range b.Writes {
					seq++
					id := fmt.Sprintf("o%d", wr.Obj)
					switch wr.Kind {
					case "set":
						cmds = append(cmds, []string{"SET", keys[w.Key], id, "POINT", fmt.Sprintf("%.6f", float64(seq)*1e-6), strconv.Itoa(wr.Pos)})
					case "del":
						cmds = append(cmds, []string{"DEL", keys[w.Key], id})
					case "fset":
						cmds = append(cmds, []string{"FSET", keys[w.Key], id, "speed", strconv.Itoa(seq)})
					case "drop":
						cmds = append(cmds, []string{"DROP", keys[w.Key]})
					}
				}
				fail := func(c []string, v t38.Value, err error) bool {
					if err != nil {
						werrs[wi] = fmt.Sprintf("%s: %v", t38.CmdString(c), err)
						return true
					}
					// FSET on a missing id answers an error; that is fine
					return false
				}
				if b.Pipe {
					for _, c := range cmds {
						if err := conn.Send(c...); err != nil {
							werrs[wi] = err.Error()
							return
						}
					}
					for _, c := range cmds {
						v, err := conn.RecvTimeout(2 * t38.ReplyTimeout)
						if fail(c, v, err) {
							return
						}
					}
				} else {
					for _, c := range cmds {
						if err := conn.Send(c...); err != nil {
							werrs[wi] = err.Error()
							return
						}
						v, err := conn.RecvTimeout(2 * t38.ReplyTimeout)
						if fail(c, v, err) {
							return
						}
					}
				}
			}
		}(wi, w)
	}
	wg.Wait()
	for wi, e := range werrs {
		if e != "" {
			r.hangOrFail("write-hang", "writer %d: %s", wi, e)
			return o
		}
	}
	// closing writes: a fresh object moved into and out of every fence yields
	// at least one notification per hook and so marks the end of its stream
	ctl2 := dial()
	for i, h := range p.Hooks {
		for k, pos := range []int{h.Fence.Lo, 0} {
			c := []string{"SET", keys[h.Key], "zz", "POINT", fmt.Sprintf("%.6f", float64(9000+i*10+k)*1e-6), strconv.Itoa(pos)}
			if err := ctl2.Send(c...); err != nil {
				panic(err)
			}
			if v, err := ctl2.RecvTimeout(2 * t38.ReplyTimeout); err != nil || v.IsErr() {
				r.hangOrFail("write-hang", "closing write: %v %v", v, err)
				return o
			}
		}
	}
	for i := range p.Hooks {
		if v, err := ctl2.Do("PUBLISH", twinName(i), "END"); err != nil || v.Kind != ':' || v.Int != 1 {
			o.fail("publish-count", "PUBLISH on the twin channel with one subscriber answered %v %v", v, err)
			return o
		}
	}
	r.verify()
	return o
}

func (r *whRun) hangOrFail(key, format string, a ...any) {
	if st := mon.MaxSince(r.t0); st > hangStallLimit {
		r.o.inconclusive = fmt.Sprintf("%s, but the test process was stalled for up to %v: %s", key, st, fmt.Sprintf(format, a...))
		return
	}
	r.o.fail(key, format, a...)
}

func (r *whRun) verify() {
	o := r.o
	var ntParts []string
	for i, h := range r.p.Hooks {
		tw, e := r.twins[i], r.eps[i]
		select {
		case <-tw.done:
		case <-time.After(t38.ReplyTimeout):
			r.hangOrFail("delivery-hang", "hook %d: the twin channel's stream did not reach its sentinel within %v", i, t38.ReplyTimeout)
			return
		}
		tw.mu.Lock()
		X, terr := tw.msgs, tw.err
		tw.mu.Unlock()
		if terr != "" {
			o.fail("subscriber-protocol", "hook %d twin: %s", i, terr)
			return
		}
		if len(X) == 0 && !utf8.ValidString(tw.name) {
			o.fail(findingNameUTF8, "hook %d: the twin channel %q (name is not valid UTF-8) was created and its subscription acknowledged, but none of the notifications of the acknowledged writes was delivered to it", i, tw.name)
			return
		}
		if len(X) == 0 {
			panic(fmt.Sprintf("harness self-check: hook %d: the closing writes produced no notification on the twin channel: %s", i, jsonStr(r.p)))
		}
		idx := map[string]int{}
		for k, x := range X {
			if _, dup := idx[x]; dup {
				o.fail("duplicate", "hook %d: the twin channel delivered the same notification twice: %s", i, x)
				return
			}
			idx[x] = k
		}
		last := X[len(X)-1]
		// wait until the endpoint has answered 200 to the closing notification
		// (sends are in queue order, so nothing can follow it), or until as
		// many 200s as notifications exist were given, or the budget ends
		e.mu.Lock()
		// budget: until the case is 20 s old (a verdict "stalled" must be
		// reached while the oldest notification is still inside the 30 s
		// retention), but at least 10 s from now
		budget := 20*time.Second - time.Duration(now()-r.t0)
		if budget < 10*time.Second {
			budget = 10 * time.Second
		}
		complete := waitCond(e.cond, time.Now().Add(budget), func() bool {
			if e.listenErr != "" || len(e.ok) >= len(X) {
				return true
			}
			return len(e.ok) > 0 && e.ok[len(e.ok)-1] == last
		})
		G := append([]string{}, e.ok...)
		arrivals := append([]arrival{}, e.arrivals...)
		slowest, listenErr := e.slowest, e.listenErr
		e.mu.Unlock()
		elapsed := time.Duration(now() - r.t0)
		o.hist("hook %d (%s): %d notifications on the twin, %d answered 200, %d requests, script %s",
			i, strings.Join(hookFenceArgs(h.Fence, "k"), " "), len(X), len(G), len(arrivals), jsonStr(h.Script))
		for _, a := range arrivals {
			o.hist("hook %d request t=%dms action=%s backlog=%d %s", i, (a.T-r.t0)/1e6, a.Action, a.Backlog, a.Body)
		}
		if listenErr != "" {
			o.inconclusive = "cannot re-open the endpoint's listener: " + listenErr
			return
		}
		timingUnsafe := ""
		if st := mon.MaxSince(r.t0); st > time.Second {
			timingUnsafe = fmt.Sprintf("test process stalled for up to %v", st)
		} else if slowest > 2*time.Second {
			timingUnsafe = fmt.Sprintf("a 200 took %v to leave the endpoint (sender's timeout is 5 s)", slowest)
		} else if elapsed > 22*time.Second {
			timingUnsafe = fmt.Sprintf("case ran for %v (retention is 30 s)", elapsed)
		}
		bad := func(key, format string, a ...any) {
			if timingUnsafe != "" {
				o.inconclusive = fmt.Sprintf("%s (%s) — %s", key, fmt.Sprintf(format, a...), timingUnsafe)
				return
			}
			o.fail(key, format, a...)
		}
		seen := map[int]bool{}
		prev := -1
		for k, g := range G {
			pos, known := idx[g]
			if !known {
				bad("webhook-unknown-message", "hook %d: request #%d answered 200 carries a notification its twin channel never received: %s", i, k, g)
				return
			}
			if seen[pos] {
				bad("webhook-duplicate", "hook %d: notification %d of %d was answered 200 twice: %s", i, pos, len(X), g)
				return
			}
			seen[pos] = true
			if pos < prev {
				bad("webhook-order", "hook %d: notification %d was answered 200 after notification %d", i, pos, prev)
				return
			}
			prev = pos
		}
		for k, x := range X {
			if !seen[k] {
				if seen[len(X)-1] {
					bad("webhook-lost", "hook %d: notification %d of %d was never answered 200 although later ones (and the closing one) were: %s", i, k, len(X), x)
				} else if !complete {
					if timingUnsafe == "" {
						key := "webhook-stalled"
						if len(G) == 0 && h.NameTail >= firstInvalidTail {
							key = findingNameUTF8
						}
						o.fail(key, "hook %d: %d of %d notifications were answered 200 and nothing more arrived for %v after the endpoint recovered", i, len(G), len(X), budget.Round(time.Second))
					} else {
						o.inconclusive = fmt.Sprintf("hook %d: stream incomplete (%d of %d) — %s", i, len(G), len(X), timingUnsafe)
					}
				} else {
					bad("webhook-lost", "hook %d: notification %d of %d missing among the 200s", i, k, len(X))
				}
				return
			}
		}
		// evidence
		o.count("notifications-delivered-200", len(G))
		if h.NameTail >= firstInvalidTail {
			o.label("hook-name-not-utf8")
		} else if h.NameTail > 0 {
			o.label("hook-name-hostile")
		}
		if len(G) > 100 {
			o.label("hook-with>100-notifications")
		}
		if h.Fence.Limit > 0 && len(G) > h.Fence.Limit {
			o.label("hook-notified-beyond-its-LIMIT")
		}
		o.count("requests", len(arrivals))
		fails, midBurst := 0, false
		var shape []string
		for k, a := range arrivals {
			if a.Action == "ok" {
				continue
			}
			fails++
			o.label("fault:" + a.Action)
			depth := "backlog<5"
			if a.Backlog >= 5 {
				depth = "backlog>=5"
			}
			pos := "head"
			if k > 0 && arrivals[k-1].Action == "ok" {
				pos = "after-200"
			}
			o.label("failure:" + depth + ":" + pos)
			shape = append(shape, a.Action+":"+depth+":"+pos)
			if a.Backlog >= 5 && pos == "after-200" {
				midBurst = true
			}
		}
		if h.StartClosedMs > 0 {
			shape = append(shape, "start-closed")
		}
		if fails > 0 {
			o.label("recovered-after-outage")
		}
		if midBurst {
			ntParts = append(ntParts, fmt.Sprintf("%s/%s/%v/%s", h.Fence.Cmd, strings.Join(h.Fence.Detect, "+"), h.Meta, strings.Join(shape, ",")))
		}
	}
	if len(ntParts) > 0 {
		o.ntKey = strings.Join(ntParts, ";") + fmt.Sprintf("#hooks=%d,keys=%d", len(r.p.Hooks), r.p.NKeys)
	}
}

// C09: AOFSHRINK preserves the dataset — concurrently with writes and across
// crashes. Oracle: a twin server that receives the same commands and is never
// shrunk. The verif Stage hook parks the rewrite between its scan batches (the
// test issues writes there) and names every step of the final file swap (the
// test snapshots the data directory there = what a process kill at that
// instruction leaves behind, and boots it).
package c09

import (
	"encoding/json"
	"fmt"
	"os"
	"path/filepath"
	"sort"
	"strings"
	"sync"
	"testing"
	"time"

	"github.com/tidwall/tile38/internal/verifhook"
	"github.com/tidwall/tile38/verif/harness/ev"
	"github.com/tidwall/tile38/verif/harness/gen"
	"github.com/tidwall/tile38/verif/harness/t38"
	"pgregory.net/rapid"
)

func TestMain(m *testing.M) {
	if !verifhook.Enabled {
		fmt.Fprintln(os.Stderr, "c09 needs -tags verif")
		os.Exit(2)
	}
	os.Exit(m.Run())
}

var swapStages = []string{"swap:flushed", "swap:shrinklog-synced", "swap:closed", "swap:renamed-bak", "swap:renamed-live", "swap:reopened", "swap:bak-removed"}

// shrinkCase is one generated case.
type shrinkCase struct {
	Cols       []colSpec    `json:"cols"`
	Hooks      [][]string   `json:"hooks"`   // SETHOOK/SETCHAN commands
	Batches    [][][]string `json:"batches"` // writes issued at successive gate stages
	CrashStage string       `json:"crash_stage"`
	Pump       bool         `json:"pump"`               // a free-running writer streams SETs from the before-swap stage until the shrink ended
	Boundary   []int        `json:"boundary,omitempty"` // ops aimed at the scan cursor, one per batch boundary inside a collection
	Revive     bool         `json:"revive,omitempty"`   // an object's deadline elapses before its batch is scanned and is lifted right after
}

type colSpec struct {
	Key  string `json:"key"`
	N    int    `json:"n"`
	Seed int    `json:"seed"`
}

var objCatalogue = [][]string{
	{"POINT", "33.5", "-115.25"},
	{"POINT", "-12", "130", "55.5"},
	{"BOUNDS", "10", "20", "11.5", "22"},
	{"HASH", "9tbnthxzr"},
	{"OBJECT", `{"type":"LineString","coordinates":[[1,2],[3,4],[5,6.5]]}`},
	{"OBJECT", `{"type":"Polygon","coordinates":[[[0,0],[4,0],[4,4],[0,4],[0,0]],[[1,1],[2,1],[2,2],[1,2],[1,1]]]}`},
	{"OBJECT", `{"type":"Feature","id":"f7","geometry":{"type":"Point","coordinates":[7,8]},"properties":{"name":"x y","n":5,"q":"\"quoted\""}}`},
	{"OBJECT", `{"type":"GeometryCollection","geometries":[]}`},
	{"OBJECT", `{"type":"MultiPoint","coordinates":[[1,1],[2,2]]}`},
	{"OBJECT", `{"type":"FeatureCollection","features":[{"type":"Feature","geometry":{"type":"Point","coordinates":[1,2]},"properties":{}}]}`},
	{"STRING", "hello world"},
	{"STRING", ""},
	{"STRING", `{"a":{"b":[1,2,3]},"c":"d"}`},
	{"STRING", "line1\r\nline2\x00\xff binary"},
	{"STRING", "12.50"},
	{"OBJECT", `{"type":"Feature","geometry":{"type":"Point","coordinates":[10,60]},"properties":{"type":"Circle","radius":1000,"radius_units":"m"}}`},
	{"BOUNDS", "-10", "170", "10", "-170"}, // min > max: accepted by SET
	{"BOUNDS", "33", "-115", "33", "-115"}, // degenerate rectangle
}

var fieldCatalogue = [][]string{
	nil,
	{"FIELD", "speed", "12.5"},
	{"FIELD", "a", "1", "FIELD", "b", "-0", "FIELD", "c", "0.0"},
	{"FIELD", "nan", "NaN", "FIELD", "pinf", "+Inf", "FIELD", "ninf", "-inf"},
	{"FIELD", "s", "abc", "FIELD", "S", "ABC def", "FIELD", "num like", "007"},
	{"FIELD", "q", `"0"`, "FIELD", "t", `"true"`, "FIELD", "e", `"a\"b"`},
	{"FIELD", "j", `{"x": [1, 2], "y": "z"}`, "FIELD", "arr", `[1,"two",null]`},
	{"FIELD", "tr", "true", "FIELD", "fa", "false", "FIELD", "nu", "null"},
	{"FIELD", "é世", "üñí", "FIELD", "sp ace", "with space", "FIELD", "big", "1e300"},
	{"FIELD", "exp", "1e3", "FIELD", "neg", "-5.25", "FIELD", "hexish", "0x10"},
	{"FIELD", "bytes", "\xffabc\xfe", "FIELD", "nul", "a\x00b", "FIELD", "crlf", "a\r\nb"},
	{"FIELD", " padded ", "5", "FIELD", "tab\t", "x"},
	{"FIELD", "likenum", `"12"`, "FIELD", "liketrue", `"true"`, "FIELD", "nanv", "NaN", "FIELD", "upper", "ABC"},
}

// datasetCmds expands the compact dataset description into commands.
func datasetCmds(sc shrinkCase) [][]string {
	var cmds [][]string
	for _, col := range sc.Cols {
		for i := 0; i < col.N; i++ {
			id := fmt.Sprintf("id%03d", i)
			if (col.Seed+i)%11 == 0 {
				id = fmt.Sprintf("odd %d\"\\*?[%d]", i, i)
			}
			cmd := []string{"SET", col.Key, id}
			cmd = append(cmd, fieldCatalogue[(col.Seed+i*7)%len(fieldCatalogue)]...)
			if (col.Seed+i)%5 == 0 {
				cmd = append(cmd, "EX", fmt.Sprint(1000+((col.Seed*31+i*17)%90000)))
			}
			cmd = append(cmd, objCatalogue[(col.Seed*3+i)%len(objCatalogue)]...)
			cmds = append(cmds, cmd)
		}
	}
	cmds = append(cmds, sc.Hooks...)
	return cmds
}

func drawCase(rt *rapid.T) shrinkCase {
	var sc shrinkCase
	ncols := rapid.SampledFrom([]int{0, 1, 2, 3, 7, 8, 9, 12, 17, 20}).Draw(rt, "ncols")
	sizes := []int{0, 1, 2, 3, 5, 31, 32, 33, 40, 64, 65, 100}
	for i := 0; i < ncols; i++ {
		n := rapid.SampledFrom(sizes).Draw(rt, "n")
		if ncols > 9 && i%3 != 0 && n > 33 {
			n = n % 7 // keep big cases affordable: only every third collection is large
		}
		if n == 0 {
			n = 1
		}
		sc.Cols = append(sc.Cols, colSpec{Key: fmt.Sprintf("col%02d", i*3), N: n, Seed: rapid.IntRange(0, 1000).Draw(rt, "seed")})
	}
	nh := rapid.IntRange(0, 4).Draw(rt, "nhooks")
	for i := 0; i < nh; i++ {
		name := fmt.Sprintf("hk%d", i)
		var cmd []string
		if rapid.Bool().Draw(rt, "chan") {
			cmd = []string{"SETCHAN", name}
		} else {
			cmd = []string{"SETHOOK", name, "http://127.0.0.1:9/a,http://127.0.0.1:9/b"}
		}
		if rapid.Bool().Draw(rt, "meta") {
			cmd = append(cmd, "META", "m1", "v 1", "META", "m\"2", "{\"j\":1}")
		}
		if rapid.IntRange(0, 2).Draw(rt, "hex") == 0 {
			cmd = append(cmd, "EX", fmt.Sprint(rapid.IntRange(1000, 90000).Draw(rt, "hookex")))
		}
		switch rapid.IntRange(0, 2).Draw(rt, "fence") {
		case 0:
			cmd = append(cmd, "NEARBY", "fencekey", "FENCE", "DETECT", "enter,exit", "POINT", "10", "10", "500")
		case 1:
			cmd = append(cmd, "WITHIN", "fencekey", "MATCH", "a*", "FENCE", "BOUNDS", "1", "2", "3", "4")
		default:
			cmd = append(cmd, "INTERSECTS", "fencekey", "WHERE", "speed", "1", "50", "FENCE", "OBJECT", `{"type":"Polygon","coordinates":[[[0,0],[4,0],[4,4],[0,4],[0,0]]]}`)
		}
		sc.Hooks = append(sc.Hooks, cmd)
	}
	// writes at gate stages
	var keys []string
	for _, c := range sc.Cols {
		keys = append(keys, c.Key)
	}
	keys = append(keys, "col00a", "col15", "col99", "aaa")
	ids := []string{"id000", "id001", "id031", "id032", "id033", "id050", "id064", "id099", "idnew", "a", "zz"}
	ns := gen.Names{Keys: keys, IDs: ids, Fields: []string{"speed", "a", "s", "newf"}}
	writeGen := rapid.Custom(func(t *rapid.T) []string {
		for {
			var cmd []string
			switch rapid.IntRange(0, 9).Draw(t, "wkind") {
			case 0:
				cmd = []string{"DROP", rapid.SampledFrom(keys).Draw(t, "k")}
			case 1:
				cmd = []string{"RENAME", rapid.SampledFrom(keys).Draw(t, "k1"), rapid.SampledFrom(keys).Draw(t, "k2")}
			case 2:
				if rapid.IntRange(0, 5).Draw(t, "flush?") == 0 {
					cmd = []string{"FLUSHDB"}
				} else {
					cmd = []string{"DELHOOK", "hk0"}
				}
			case 4:
				// relative document edits: replayed twice they give another result
				switch rapid.IntRange(0, 3).Draw(t, "jrel") {
				case 0:
					cmd = []string{"SET", "aaa", "doc", "STRING", `{"tags":["a"],"log":[1,2,3]}`}
				case 1:
					cmd = []string{"JSET", "aaa", "doc", "tags.-1", "b"}
				case 2:
					cmd = []string{"JDEL", "aaa", "doc", "log.0"}
				default:
					cmd = []string{"JSET", "aaa", "doc", "n", "7", "RAW"}
				}
			case 3:
				cmd = []string{"SETCHAN", "during", "NEARBY", "fencekey", "FENCE", "POINT", "1", "1", "10"}
				if rapid.Bool().Draw(t, "reshrink") {
					// a second AOFSHRINK while one is running must be a no-op
					cmd = []string{"AOFSHRINK"}
				}
			default:
				cmd = gen.KeyspaceCmd(t, ns)
			}
			if isWrite(cmd) {
				return cmd
			}
		}
	})
	nb := rapid.IntRange(0, 12).Draw(rt, "nbatches")
	for i := 0; i < nb; i++ {
		sc.Batches = append(sc.Batches, rapid.SliceOfN(writeGen, 0, 3).Draw(rt, "batch"))
	}
	stages := append([]string{"", "", "", "", ""}, swapStages...)
	sc.CrashStage = rapid.SampledFrom(stages).Draw(rt, "crashstage")
	sc.Pump = rapid.Bool().Draw(rt, "pump")
	if rapid.Bool().Draw(rt, "boundary?") {
		sc.Boundary = rapid.SliceOfN(rapid.IntRange(0, 5), 1, 6).Draw(rt, "boundary")
	}
	sc.Revive = rapid.IntRange(0, 3).Draw(rt, "revive") == 0
	return sc
}

func isWrite(cmd []string) bool {
	switch strings.ToLower(cmd[0]) {
	case "set", "fset", "del", "pdel", "drop", "flushdb", "rename", "renamenx", "expire", "persist", "jset", "jdel",
		"sethook", "setchan", "delhook", "delchan", "pdelhook", "pdelchan", "aofshrink":
		return true
	}
	return false
}

// pipeline sends cmds to conn in chunks and requires non-transport success.
func pipeline(conn *t38.Conn, cmds [][]string) error {
	for i := 0; i < len(cmds); i += 200 {
		j := i + 200
		if j > len(cmds) {
			j = len(cmds)
		}
		var buf []byte
		for _, c := range cmds[i:j] {
			buf = append(buf, t38.EncodeCmd(c...)...)
		}
		if err := conn.SendRaw(buf); err != nil {
			return err
		}
		for k := i; k < j; k++ {
			v, err := conn.Recv()
			if err != nil {
				return err
			}
			if v.IsErr() {
				return fmt.Errorf("%s: %s", t38.CmdString(cmds[k]), v.Str)
			}
		}
	}
	return nil
}

type stageEvent struct {
	name    string
	release chan struct{}
}

// bootDump boots a server on a copy of dir and returns its dump.
func bootDump(dir string) (*t38.Dump, *t38.Srv, error) {
	srv, err := t38.Start(t38.Opts{Dir: dir})
	if err != nil {
		return nil, nil, fmt.Errorf("server does not start on the directory: %v", err)
	}
	d, err := t38.TakeDump(srv.Addr)
	if err != nil {
		srv.StopAsync()
		return nil, nil, err
	}
	return d, srv, nil
}

func listDir(dir string) string {
	ents, _ := os.ReadDir(dir)
	var out []string
	for _, e := range ents {
		if fi, err := e.Info(); err == nil {
			out = append(out, fmt.Sprintf("%s(%d)", e.Name(), fi.Size()))
		}
	}
	sort.Strings(out)
	return strings.Join(out, " ")
}

var renameAcrossCursorKnown = ev.KnownActive("shrink-rename-across-cursor")
var noAOFBetweenRenamesKnown = ev.KnownActive("shrink-no-aof-between-renames")

func runCase(t ev.Failer, c *ev.Collector, sc shrinkCase) (labels []string) {
	dir := t38.NewDir("c09")
	events := make(chan *stageEvent, 16)
	var armed sync.Mutex
	isArmed := false
	verifhook.Register(dir, &verifhook.Handler{Stage: func(name string) {
		armed.Lock()
		a := isArmed
		armed.Unlock()
		if !a {
			return
		}
		ev := &stageEvent{name: name, release: make(chan struct{})}
		events <- ev
		<-ev.release
	}})
	defer verifhook.Unregister(dir)
	S, err := t38.Start(t38.Opts{Dir: dir})
	if err != nil {
		t.Fatalf("start: %v", err)
	}
	defer S.StopAsync()
	T, err := t38.Start(t38.Opts{})
	if err != nil {
		t.Fatalf("start twin: %v", err)
	}
	defer T.StopAsync()
	cs, ct := S.MustDial(), T.MustDial()
	defer cs.Close()
	defer ct.Close()
	ds := datasetCmds(sc)
	if err := pipeline(cs, ds); err != nil {
		t.Fatalf("dataset on S: %v", err)
	}
	if err := pipeline(ct, ds); err != nil {
		t.Fatalf("dataset on T: %v", err)
	}
	fail := func(key, what string) {
		c.Fail(t, key, what, sc)
	}
	// both(cmd) applies a concurrent write to S and T and requires equal replies.
	// While the revive object is due (reviveState 1: deadline elapsed, not yet
	// lifted) the two sweepers may already have removed it on one side only, so
	// a generated write that touches it can be answered differently: that makes
	// the case inconclusive (diverged), like everything that follows from it.
	diverged := false
	reviveState := 0
	both := func(cmd []string) {
		vs, err1 := cs.Do(cmd...)
		vt, err2 := ct.Do(cmd...)
		if err1 != nil || err2 != nil {
			t.Fatalf("transport: %v %v", err1, err2)
		}
		if !vs.Equal(vt) && (reviveState == 1 || diverged) {
			diverged = true
			return
		}
		if !vs.Equal(vt) {
			fail("shrink-changes-served-state", fmt.Sprintf("during the shrink %s answered %s on the shrinking server and %s on the twin", t38.CmdString(cmd), vs, vt))
		}
	}
	// bothLoose is both() for commands whose outcome depends on whether the
	// background sweeper has already run (elapsed deadlines): differing replies
	// make the case inconclusive instead of a violation.
	bothLoose := func(cmd []string) {
		vs, err1 := cs.Do(cmd...)
		vt, err2 := ct.Do(cmd...)
		if err1 != nil || err2 != nil {
			t.Fatalf("transport: %v %v", err1, err2)
		}
		if !vs.Equal(vt) {
			diverged = true
		}
	}
	// mirror of the rewrite's scan cursor, derived from the dataset at the start
	type colIDs struct {
		key string
		ids []string
	}
	var scan []colIDs
	{
		m := map[string]map[string]bool{}
		for _, cmd := range ds {
			if strings.ToLower(cmd[0]) == "set" {
				if m[cmd[1]] == nil {
					m[cmd[1]] = map[string]bool{}
				}
				m[cmd[1]][cmd[2]] = true
			}
		}
		var keys []string
		for k := range m {
			keys = append(keys, k)
		}
		sort.Strings(keys)
		for _, k := range keys {
			var ids []string
			for id := range m[k] {
				ids = append(ids, id)
			}
			sort.Strings(ids)
			scan = append(scan, colIDs{k, ids})
		}
	}
	ki, bi, boundaryUsed := 0, 0, 0
	var reviveKey, reviveID string
	if sc.Revive && len(scan) > 0 && len(scan[0].ids) > 0 {
		reviveKey, reviveID = scan[0].key, scan[0].ids[0]
	}
	armed.Lock()
	isArmed = true
	armed.Unlock()
	if v := cs.MustDo("AOFSHRINK"); v.IsErr() {
		t.Fatalf("AOFSHRINK: %s", v)
	}
	batch := 0
	// pump: genuinely concurrent writes while the final swap runs (the gates
	// cannot reach the window between the last gate and the swap's lock)
	var pumpStop chan struct{}
	var pumpDone chan int
	startPump := func() {
		pumpStop = make(chan struct{})
		pumpDone = make(chan int, 1)
		pc := S.MustDial()
		go func() {
			defer pc.Close()
			n := 0
			for {
				select {
				case <-pumpStop:
					pumpDone <- n
					return
				default:
				}
				v, err := pc.Do("SET", "pumpkey", fmt.Sprintf("p%06d", n), "POINT", "1", "1")
				if err != nil || v.IsErr() {
					pumpDone <- n
					return
				}
				n++
			}
		}()
	}
	pumped := 0
	var snapDir string
	gates, writesDuring := 0, 0
	deadline := time.After(120 * time.Second)
loop:
	for {
		select {
		case e := <-events:
			switch {
			case e.name == "ended":
				close(e.release)
				if pumpStop != nil {
					close(pumpStop)
					pumped = <-pumpDone
					var cmds [][]string
					for i := 0; i < pumped; i++ {
						cmds = append(cmds, []string{"SET", "pumpkey", fmt.Sprintf("p%06d", i), "POINT", "1", "1"})
					}
					if err := pipeline(ct, cmds); err != nil {
						t.Fatalf("pump replay on twin: %v", err)
					}
				}
				break loop
			case strings.HasPrefix(e.name, "swap:"):
				// the server lock is held here: only look at the disk
				if e.name == sc.CrashStage {
					snapDir = t38.NewDir("c09snap")
					if err := t38.CopyDir(dir, snapDir); err != nil {
						t.Fatalf("snapshot: %v", err)
					}
				}
				close(e.release)
			default:
				gates++
				if reviveKey != "" && reviveState == 0 && e.name == "keys-batch" {
					// the deadline elapses before the object's batch is scanned ...
					bothLoose([]string{"EXPIRE", reviveKey, reviveID, "0"})
					reviveState = 1
				} else if reviveKey != "" && reviveState == 1 && e.name == "ids-batch" {
					// ... and is lifted right after (the sweeper has usually not run yet)
					// the object must be safely persistent again on BOTH servers, otherwise it
					// stays due and the two sweepers remove it at different moments
					vs, err1 := cs.Do("PERSIST", reviveKey, reviveID)
					vt, err2 := ct.Do("PERSIST", reviveKey, reviveID)
					if err1 != nil || err2 != nil {
						t.Fatalf("transport: %v %v", err1, err2)
					}
					if !(vs.Kind == ':' && vs.Int == 1 && vt.Kind == ':' && vt.Int == 1) {
						diverged = true
					}
					reviveState = 2
					writesDuring++
				}
				if e.name == "ids-batch" && ki < len(scan) {
					ids := scan[ki].ids
					end := 32 * (bi + 1)
					if end < len(ids) {
						// a batch boundary inside a collection: ids[end-1] was just written, ids[end] comes next
						if boundaryUsed < len(sc.Boundary) {
							key := scan[ki].key
							last, next := ids[end-1], ids[end]
							var cmd []string
							switch sc.Boundary[boundaryUsed] {
							case 0:
								cmd = []string{"DEL", key, last}
							case 1:
								cmd = []string{"DEL", key, next}
							case 2:
								cmd = []string{"SET", key, last + "+", "POINT", "7", "7"} // sorts between last and next
							case 3:
								cmd = []string{"FSET", key, last, "newf", "9"}
							case 4:
								cmd = []string{"SET", key, next, "FIELD", "newf", "3", "STRING", "moved"}
							default:
								cmd = []string{"PDEL", key, last[:len(last)-1] + "*"}
							}
							boundaryUsed++
							if !(reviveKey == key && (reviveID == last || reviveID == next)) {
								both(cmd)
								writesDuring++
							}
						}
						bi++
					} else {
						ki++
						bi = 0
					}
				}
				if batch < len(sc.Batches) {
					for _, cmd := range sc.Batches[batch] {
						name := strings.ToLower(cmd[0])
						if renameAcrossCursorKnown && (name == "rename" || name == "renamenx") {
							c.Excluded("shrink-rename-across-cursor")
							continue
						}
						both(cmd)
						writesDuring++
					}
					batch++
				}
				// the free-running writer starts after the last gate's writes
				// (which may be FLUSHDB/DROP) and only touches its own key
				if e.name == "before-swap" && sc.Pump && sc.CrashStage == "" {
					startPump()
				}
				close(e.release)
			}
		case <-deadline:
			c.Inconclusive("shrink did not finish within 120 s")
			armed.Lock()
			isArmed = false
			armed.Unlock()
			return nil
		}
	}
	armed.Lock()
	isArmed = false
	armed.Unlock()
	if reviveState == 1 {
		diverged = true // deadline elapsed but never lifted
	}
	if diverged {
		// the sweeper ran between the two servers' copies of a deadline-dependent command
		c.Inconclusive("revive case: the twins answered a deadline-dependent command differently (sweeper timing)")
		return []string{"revive-diverged"}
	}
	if reviveState == 2 {
		labels = append(labels, "revived-after-deadline-during-scan")
	}
	if boundaryUsed > 0 {
		labels = append(labels, "write-at-batch-boundary")
	}
	if gates > 1 {
		labels = append(labels, "multi-batch")
	}
	if writesDuring > 0 {
		labels = append(labels, "writes-during-shrink")
	}
	if pumped > 0 {
		labels = append(labels, "free-running-writer-during-swap")
	}
	// 1. the served state did not change
	dT, err := t38.TakeDump(T.Addr)
	if err != nil {
		t.Fatalf("dump twin: %v", err)
	}
	dS, err := t38.TakeDump(S.Addr)
	if err != nil {
		fail("shrink-changes-served-state", "dump of the shrunk server failed: "+err.Error())
	}
	if diff := dT.Diff(dS); diff != "" {
		fail("shrink-changes-served-state", "after AOFSHRINK the served dataset differs from the un-shrunk twin (A=twin, B=shrunk): "+diff)
	}
	// 2. a restart on the shrunk directory recovers the twin's state
	after := t38.NewDir("c09after")
	if err := t38.CopyDir(dir, after); err != nil {
		t.Fatalf("copy: %v", err)
	}
	dR, R, err := bootDump(after)
	if err != nil {
		fail("shrink-restart-differs", "restart after AOFSHRINK: "+err.Error()+" files: "+listDir(after))
	}
	defer R.StopAsync()
	if diff := dT.Diff(dR); diff != "" {
		key := "shrink-restart-differs"
		if hasRename(sc) {
			key = "shrink-rename-across-cursor"
		}
		fail(key, "restart after AOFSHRINK recovers a different dataset than the un-shrunk twin serves (A=twin, B=restarted): "+diff)
	}
	cr := R.MustDial()
	defer cr.Close()
	// the objects are the same KIND of thing after the rewrite: counters recomputed by the restarted
	// server equal the twin's (a BOUNDS rectangle that came back as a polygon has 5 points, not 2)
	for k := range dT.Keys {
		st, sr := ct.MustDo("STATS", k), cr.MustDo("STATS", k)
		if !st.Equal(sr) {
			fail("shrink-restart-differs:stats", fmt.Sprintf("STATS %q after shrink + restart = %s, the un-shrunk twin reports %s", k, sr, st))
		}
	}
	// deadlines not shortened beyond rounding
	checked := 0
	for k, m := range dT.Keys {
		for id, o := range m {
			if !o.HasTTL || checked > 40 {
				continue
			}
			checked++
			tt := ct.MustDo("TTL", k, id)
			tr := cr.MustDo("TTL", k, id)
			if tr.Int < tt.Int-2 {
				fail("shrink-shortens-deadline", fmt.Sprintf("%s/%s: TTL %d after shrink+restart, twin still has %d", k, id, tr.Int, tt.Int))
			}
		}
	}
	if checked > 0 {
		labels = append(labels, "deadlines")
	}
	// 3. crash at a named stage of the swap
	if snapDir != "" {
		labels = append(labels, "crash:"+sc.CrashStage)
		if sc.CrashStage == "swap:renamed-bak" && noAOFBetweenRenamesKnown {
			c.Excluded("shrink-no-aof-between-renames")
		} else {
			dC, Csrv, err := bootDump(snapDir)
			key := "shrink-crash-loses-data"
			if sc.CrashStage == "swap:renamed-bak" {
				key = "shrink-no-aof-between-renames"
			}
			if err != nil {
				fail(key, fmt.Sprintf("crash at %s: %v; files: %s", sc.CrashStage, err, listDir(snapDir)))
			}
			defer Csrv.StopAsync()
			if diff := dT.Diff(dC); diff != "" {
				if hasRename(sc) && key == "shrink-crash-loses-data" {
					key = "shrink-rename-across-cursor"
				}
				fail(key, fmt.Sprintf("crash at stage %s: the directory (%s) recovers a different dataset than was acknowledged (A=twin, B=recovered): %s", sc.CrashStage, listDir(snapDir), diff))
			}
		}
	}
	big := 0
	for _, col := range sc.Cols {
		if col.N > 32 {
			big++
		}
	}
	if len(sc.Cols) > 8 {
		labels = append(labels, ">8-collections")
	}
	if big > 0 {
		labels = append(labels, ">32-ids")
	}
	os.RemoveAll(after)
	if snapDir != "" {
		os.RemoveAll(snapDir)
	}
	return labels
}

func hasRename(sc shrinkCase) bool {
	for _, b := range sc.Batches {
		for _, c := range b {
			n := strings.ToLower(c[0])
			if n == "rename" || n == "renamenx" {
				return true
			}
		}
	}
	return false
}

func caseKey(sc shrinkCase, labels []string) string {
	var b strings.Builder
	for _, c := range sc.Cols {
		fmt.Fprintf(&b, "%s:%d;", c.Key, c.N)
	}
	for _, bt := range sc.Batches {
		for _, cmd := range bt {
			b.WriteString(strings.ToLower(cmd[0]) + ",")
		}
		b.WriteString("|")
	}
	b.WriteString(sc.CrashStage)
	fmt.Fprint(&b, sc.Pump, sc.Boundary, sc.Revive)
	return b.String()
}

func TestC09_Shrink(t *testing.T) {
	c := ev.New("C09", "shrink", "fault_enumeration")
	t.Cleanup(c.Flush)
	c.Rule("datasets of 0-20 collections x 1-100 objects (sizes 31/32/33/64/65 over-sampled so both batch limits, 8 keys and 32 ids, are crossed; every object kind incl. empty geometries, circle features, binary strings; fields of every value kind; deadlines; hooks and channels with META and EX) loaded into a server and an un-shrunk twin; AOFSHRINK runs with the rewrite parked between scan batches, where generated writes (keyspace commands on scanned and unscanned keys/ids, DROP, RENAME, FLUSHDB, hook commands) go to both servers; optionally the data directory is snapshotted at one named step of the final swap (= process kill there) and booted. Oracles: equal replies during the shrink, dump(shrunk)==dump(twin), restart on the shrunk directory == twin with deadlines not shortened by more than 2 s, crash snapshot == twin. Non-trivial: writes issued during a multi-batch rewrite, or a crash stage; distinct by (collection sizes, write commands per batch, crash stage).")
	ev.Rapid("shrink", ev.Pick(150, 600))
	rapid.Check(t, func(rt *rapid.T) {
		sc := drawCase(rt)
		c.Case()
		labels := runCase(rt, c, sc)
		nt := false
		for _, l := range labels {
			c.Label(l)
			if l == "writes-during-shrink" || l == "free-running-writer-during-swap" || strings.HasPrefix(l, "crash:") {
				nt = true
			}
		}
		if nt {
			c.NonTrivial(caseKey(sc, labels))
			if c.WantSample() {
				c.Sample(map[string]any{"collections": sc.Cols, "hooks": len(sc.Hooks), "batches": sc.Batches, "crash_stage": sc.CrashStage, "labels": labels})
			}
		}
	})
}

// TestC09_CrashStages enumerates every named stage of the swap on fixed
// datasets (fault enumeration proper) and probes the known findings.
func TestC09_CrashStages(t *testing.T) {
	if ev.Shard() != 0 {
		t.Skip("enumeration runs on shard 0")
	}
	c := ev.New("C09", "crash-stages", "fault_enumeration")
	t.Cleanup(c.Flush)
	c.Rule("every named step of the shrink's final file swap (after flush, after shrink-log append+fsync, after close, after rename live->bak, after rename shrink->live, after reopen, after bak removal) x several datasets (empty, small, multi-batch, with hooks) x {no concurrent writes, writes at every gate}: directory snapshot at the step is booted and must serve the twin's dataset. Non-trivial: every case; distinct by (dataset, stage, writes).")
	datasets := []shrinkCase{
		{},
		{Cols: []colSpec{{Key: "col00", N: 3, Seed: 1}}},
		{Cols: []colSpec{{Key: "col00", N: 65, Seed: 2}, {Key: "col03", N: 33, Seed: 3}}, Hooks: [][]string{{"SETCHAN", "hk0", "META", "a", "b", "EX", "5000", "NEARBY", "fencekey", "FENCE", "POINT", "1", "1", "10"}}},
	}
	var many shrinkCase
	for i := 0; i < 10; i++ {
		many.Cols = append(many.Cols, colSpec{Key: fmt.Sprintf("col%02d", i), N: 1 + i%4, Seed: i})
	}
	datasets = append(datasets, many)
	writes := [][][][]string{
		nil,
		{{{"SET", "col00", "id001", "FIELD", "speed", "77", "POINT", "1", "2"}}, {{"DEL", "col00", "id000"}, {"SET", "aaa", "n1", "STRING", "during"}}, {{"FSET", "col03", "id032", "newf", "5"}}, {{"EXPIRE", "col00", "id002", "5000"}}},
	}
	for di, ds := range datasets {
		for _, st := range swapStages {
			for wi, w := range writes {
				sc := ds
				sc.CrashStage = st
				sc.Batches = w
				if st == "swap:renamed-bak" && noAOFBetweenRenamesKnown {
					// probe: does it still reproduce?
					probe := sc
					c.Case()
					if reproducesNoAOF(probe) {
						c.Known("shrink-no-aof-between-renames", "crash between the two renames of the swap leaves no appendonly.aof; start-up creates an empty one")
					}
					continue
				}
				c.Case()
				labels := runCase(t, c, sc)
				c.NonTrivial(fmt.Sprintf("ds%d/%s/w%d", di, st, wi))
				for _, l := range labels {
					c.Label(l)
				}
			}
		}
	}
	c.Exhaustive(true)
	c.Sample(map[string]any{"stages": swapStages, "datasets": len(datasets), "write_plans": len(writes)})
	// probe of the rename-across-cursor finding
	probe := shrinkCase{Cols: []colSpec{{Key: "col00", N: 2, Seed: 1}, {Key: "col90", N: 2, Seed: 5}},
		Batches: [][][]string{nil, {{"RENAME", "col90", "col00"}}}}
	_ = probe
	if renameAcrossCursorKnown {
		c.Case()
		if reproducesRename() {
			c.Known("shrink-rename-across-cursor", "RENAME z a issued after a was scanned and before z is reached: the rewritten log replays RENAME as key-not-found and keeps a's old objects")
		}
	}
}

// reproducesNoAOF runs the case with a private collector and reports whether
// the crash snapshot between the renames fails to recover.
func reproducesNoAOF(sc shrinkCase) bool {
	return probeFails(sc)
}

type probeFailer struct{ failed bool }

func (p *probeFailer) Fatalf(format string, args ...any) { p.failed = true; panic(p) }
func (p *probeFailer) Helper()                           {}

func probeFails(sc shrinkCase) (failed bool) {
	pf := &probeFailer{}
	pc := ev.New("C09", "probe-scratch", "fault_enumeration")
	defer func() {
		if r := recover(); r != nil {
			if r == any(pf) {
				failed = true
				return
			}
			panic(r)
		}
	}()
	saved1, saved2 := noAOFBetweenRenamesKnown, renameAcrossCursorKnown
	noAOFBetweenRenamesKnown, renameAcrossCursorKnown = false, false
	defer func() { noAOFBetweenRenamesKnown, renameAcrossCursorKnown = saved1, saved2 }()
	runCase(pf, pc, sc)
	return pf.failed
}

func reproducesRename() bool {
	// 9+ collections so that the second key batch starts after the first was scanned
	var sc shrinkCase
	for i := 0; i < 10; i++ {
		sc.Cols = append(sc.Cols, colSpec{Key: fmt.Sprintf("col%02d", i), N: 2, Seed: i})
	}
	// at the first gates everything up to col07 is being scanned; rename the last key onto the first
	sc.Batches = [][][]string{nil, nil, {{"RENAME", "col09", "col00"}}}
	return probeFails(sc)
}

// TestC09_ConcurrentStress: free-running writers during repeated shrinks; after
// a restart every acknowledged write must be there.
func TestC09_ConcurrentStress(t *testing.T) {
	c := ev.New("C09", "concurrent-stress", "exploration")
	t.Cleanup(c.Flush)
	c.Rule("free-running schedule: 8 connections stream SETs with unique ids (and a DEL of every fifth) while AOFSHRINK is issued repeatedly; afterwards a server booted on a snapshot of the directory must hold exactly the acknowledged state (set of ids). Non-trivial: each shrink round that completed while writers were active; distinct by round.")
	S, err := t38.Start(t38.Opts{})
	if err != nil {
		t.Fatal(err)
	}
	defer S.StopAsync()
	rounds := ev.Pick(12, 60)
	stop := make(chan struct{})
	var wg sync.WaitGroup
	acked := make([]int, 8)
	for w := 0; w < 8; w++ {
		wg.Add(1)
		go func(w int) {
			defer wg.Done()
			cn := S.MustDial()
			defer cn.Close()
			for n := 0; ; n++ {
				select {
				case <-stop:
					return
				default:
				}
				if v, err := cn.Do("SET", "stress", fmt.Sprintf("w%d-%07d", w, n), "FIELD", "n", fmt.Sprint(n+1), "POINT", "1", "2"); err != nil || v.IsErr() {
					return
				}
				if n%5 == 4 {
					if v, err := cn.Do("DEL", "stress", fmt.Sprintf("w%d-%07d", w, n-2)); err != nil || v.IsErr() {
						return
					}
				}
				acked[w] = n + 1
			}
		}(w)
	}
	ctl := S.MustDial()
	defer ctl.Close()
	done := 0
	for r := 0; r < rounds; r++ {
		ctl.MustDo("AOFSHRINK")
		// wait for the rewrite to finish: the -shrink file disappears when it is renamed
		time.Sleep(5 * time.Millisecond)
		for i := 0; i < 2000; i++ {
			if _, err := os.Stat(S.AOFPath() + "-shrink"); os.IsNotExist(err) {
				break
			}
			time.Sleep(2 * time.Millisecond)
		}
		done++
		c.Case()
		c.NonTrivial(fmt.Sprint("round", r))
	}
	close(stop)
	wg.Wait()
	// let a possibly still running rewrite end
	time.Sleep(50 * time.Millisecond)
	for i := 0; i < 2000; i++ {
		if _, err := os.Stat(S.AOFPath() + "-shrink"); os.IsNotExist(err) {
			break
		}
		time.Sleep(2 * time.Millisecond)
	}
	before, err := t38.TakeDump(S.Addr)
	if err != nil {
		t.Fatal(err)
	}
	dir := t38.NewDir("c09stress")
	defer os.RemoveAll(dir)
	if err := t38.CopyDir(S.Dir, dir); err != nil {
		t.Fatal(err)
	}
	after, R, err := bootDump(dir)
	if err != nil {
		c.Violation("shrink-restart-differs", "restart after concurrent shrinks: "+err.Error(), map[string]any{"stress": true})
		t.Fatal(err)
	}
	defer R.StopAsync()
	total := 0
	for _, a := range acked {
		total += a
	}
	c.Sample(map[string]any{"shrink_rounds": done, "acknowledged_sets": total, "objects_at_end": before.NumObjects()})
	if diff := before.Diff(after); diff != "" {
		c.Violation("shrink-loses-concurrent-writes", fmt.Sprintf("after %d AOFSHRINK rounds with 8 free-running writers (%d acknowledged SETs) a restart recovers a different dataset than was served (A=served, B=recovered): %s", done, total, diff), map[string]any{"stress": true, "rounds": done})
		t.Fatalf("restart differs: %s", diff)
	}
	// and the served state itself holds every acknowledged write
	for w, a := range acked {
		for n := 0; n < a; n++ {
			id := fmt.Sprintf("w%d-%07d", w, n)
			_, have := before.Keys["stress"][id]
			deleted := (n+2)%5 == 4 && n+2 < a
			if have == deleted {
				c.Violation("shrink-changes-served-state", fmt.Sprintf("acknowledged write %s: present=%v, expected deleted=%v", id, have, deleted), map[string]any{"stress": true})
				t.Fatalf("served state wrong for %s", id)
			}
		}
	}
}

func TestReplay(t *testing.T) {
	doc, ok := ev.ReplayFile()
	if !ok {
		t.Skip("no replay file")
	}
	c := ev.New("C09", "replay", "fault_enumeration")
	t.Cleanup(c.Flush)
	if doc.Check == "reshrink" {
		var rc reCase
		if err := json.Unmarshal(doc.Data, &rc); err != nil {
			t.Fatal(err)
		}
		c.Case()
		runReCase(t, c, rc)
		return
	}
	var sc shrinkCase
	if err := json.Unmarshal(doc.Data, &sc); err != nil {
		t.Fatal(err)
	}
	c.Case()
	runCase(t, c, sc)
}

var _ = filepath.Join

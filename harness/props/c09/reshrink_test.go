package c09

import (
	"fmt"
	"os"
	"strings"
	"sync"
	"testing"
	"time"

	"github.com/tidwall/tile38/internal/verifhook"
	"github.com/tidwall/tile38/verif/harness/ev"
	"github.com/tidwall/tile38/verif/harness/t38"
	"pgregory.net/rapid"
)

// A re-shrink case is a sequence of rounds on ONE data directory: writes
// (often shrinking the dataset), an AOFSHRINK that completes, is abandoned
// (RENAME at the before-swap gate) or is cut short by a process kill while the
// rewrite file exists, then more writes. What one rewrite leaves behind (the
// -shrink file, the -bak file, the shrink log, the position of the live file)
// is the starting point of the next.
type reRound struct {
	Before [][]string `json:"before"`
	Mode   string     `json:"mode"` // free | abandon | kill-scan | kill-before-swap | none
	After  [][]string `json:"after"`
}

type reCase struct {
	Cols   []colSpec `json:"cols"`
	Rounds []reRound `json:"rounds"`
}

func drawReCase(rt *rapid.T) reCase {
	var rc reCase
	ncols := rapid.IntRange(2, 6).Draw(rt, "ncols")
	var keys []string
	for i := 0; i < ncols; i++ {
		n := rapid.SampledFrom([]int{1, 3, 20, 33, 40, 70, 120}).Draw(rt, "n")
		k := fmt.Sprintf("col%02d", i*3)
		keys = append(keys, k)
		rc.Cols = append(rc.Cols, colSpec{Key: k, N: n, Seed: rapid.IntRange(0, 1000).Draw(rt, "seed")})
	}
	seq := 0
	writeGen := rapid.Custom(func(t *rapid.T) []string {
		seq++
		k := rapid.SampledFrom(keys).Draw(t, "k")
		switch rapid.IntRange(0, 9).Draw(t, "wkind") {
		case 0, 1:
			return []string{"DROP", k} // the dataset (and the next rewrite) gets smaller
		case 2:
			return []string{"PDEL", k, rapid.SampledFrom([]string{"*", "id0*", "id00*", "id1*"}).Draw(t, "pat")}
		case 3:
			return []string{"SET", k, fmt.Sprintf("big%d", seq), "STRING", strings.Repeat("x", rapid.SampledFrom([]int{100, 5000, 40000}).Draw(t, "sz"))}
		case 4:
			return []string{"DEL", k, fmt.Sprintf("id%03d", rapid.IntRange(0, 40).Draw(t, "i"))}
		case 5:
			return []string{"FSET", k, fmt.Sprintf("id%03d", rapid.IntRange(0, 40).Draw(t, "i")), "newf", fmt.Sprint(seq)}
		case 6:
			return []string{"SETCHAN", fmt.Sprintf("ch%d", rapid.IntRange(0, 2).Draw(t, "c")), "NEARBY", "fencekey", "FENCE", "POINT", "1", "1", fmt.Sprint(10 + seq)}
		default:
			return []string{"SET", k, fmt.Sprintf("n%d", seq), "FIELD", "speed", fmt.Sprint(seq), "POINT", fmt.Sprint(seq % 80), fmt.Sprint(seq % 170)}
		}
	})
	nr := rapid.IntRange(2, 4).Draw(rt, "nrounds")
	for i := 0; i < nr; i++ {
		r := reRound{
			Before: rapid.SliceOfN(writeGen, 0, 4).Draw(rt, "before"),
			Mode:   rapid.SampledFrom([]string{"free", "free", "abandon", "abandon", "kill-scan", "kill-before-swap", "none"}).Draw(rt, "mode"),
			After:  rapid.SliceOfN(writeGen, 0, 3).Draw(rt, "after"),
		}
		rc.Rounds = append(rc.Rounds, r)
	}
	// the last round always rewrites for real and is followed by a write, so that leftovers matter
	last := &rc.Rounds[len(rc.Rounds)-1]
	last.Mode = "free"
	last.After = append(last.After, []string{"SET", keys[0], "final", "POINT", "9", "9"})
	return rc
}

func runReCase(t ev.Failer, c *ev.Collector, rc reCase) (labels map[string]bool) {
	labels = map[string]bool{}
	dir := t38.NewDir("c09re")
	events := make(chan *stageEvent, 16)
	var armed sync.Mutex
	isArmed := false
	handler := &verifhook.Handler{Stage: func(name string) {
		armed.Lock()
		a := isArmed
		armed.Unlock()
		if !a {
			return
		}
		e := &stageEvent{name: name, release: make(chan struct{})}
		events <- e
		<-e.release
	}}
	arm := func(on bool) {
		armed.Lock()
		isArmed = on
		armed.Unlock()
	}
	verifhook.Register(dir, handler)
	var dirs = []string{dir}
	defer func() {
		for _, d := range dirs {
			verifhook.Unregister(d)
		}
	}()
	S, err := t38.Start(t38.Opts{Dir: dir})
	if err != nil {
		t.Fatalf("start: %v", err)
	}
	defer func() { S.StopAsync() }()
	T, err := t38.Start(t38.Opts{})
	if err != nil {
		t.Fatalf("start twin: %v", err)
	}
	defer T.StopAsync()
	cs, ct := S.MustDial(), T.MustDial()
	defer func() { cs.Close() }()
	defer ct.Close()
	ds := datasetCmds(shrinkCase{Cols: rc.Cols})
	if err := pipeline(cs, ds); err != nil {
		t.Fatalf("dataset on S: %v", err)
	}
	if err := pipeline(ct, ds); err != nil {
		t.Fatalf("dataset on T: %v", err)
	}
	fail := func(key, what string) { c.Fail(t, key, what, rc) }
	both := func(cmd []string) {
		vs, err1 := cs.Do(cmd...)
		vt, err2 := ct.Do(cmd...)
		if err1 != nil || err2 != nil {
			t.Fatalf("transport: %v %v", err1, err2)
		}
		if !vs.Equal(vt) {
			fail("shrink-changes-served-state", fmt.Sprintf("%s answered %s on the shrinking server and %s on the twin", t38.CmdString(cmd), vs, vt))
		}
	}
	leftover := false // a rewrite that did not swap has happened on this directory
	for ri, r := range rc.Rounds {
		for _, cmd := range r.Before {
			both(cmd)
		}
		if r.Mode != "none" {
			arm(true)
			if v := cs.MustDo("AOFSHRINK"); v.IsErr() {
				t.Fatalf("AOFSHRINK: %s", v)
			}
			deadline := time.After(120 * time.Second)
			killed := false
			scanGates := 0
		loop:
			for {
				select {
				case e := <-events:
					switch {
					case e.name == "ended":
						close(e.release)
						break loop
					case strings.HasPrefix(e.name, "swap:"):
						close(e.release)
					default:
						if e.name == "ids-batch" {
							scanGates++
						}
						if r.Mode == "abandon" && e.name == "before-swap" {
							// a RENAME logged during the rewrite makes the swap give the rewrite up
							both([]string{"SET", "rnsrc", fmt.Sprintf("r%d", ri), "POINT", "1", "1"})
							both([]string{"RENAME", "rnsrc", fmt.Sprintf("rndst%d", ri)})
							labels["abandoned-rewrite"] = true
							leftover = true
						}
						if !killed && ((r.Mode == "kill-scan" && e.name == "ids-batch" && scanGates == 1) || (r.Mode == "kill-before-swap" && e.name == "before-swap")) {
							// process kill while the rewrite file exists: the directory as it is now is
							// what the next process finds. No write is in flight (the rewrite is parked
							// at a gate, the client connection is idle), so the twin holds exactly the
							// acknowledged state.
							snap := t38.NewDir("c09resnap")
							if err := t38.CopyDir(dir, snap); err != nil {
								t.Fatalf("snapshot: %v", err)
							}
							killed = true
							labels["killed-during-rewrite:"+e.name] = true
							leftover = true
							// let the old process finish its rewrite on the old directory and discard it
							arm(false)
							// the abandoned process must not feed stage events into this case any more
							// (its "ended" could be taken for the next round's, leaving the new server
							// parked inside its swap with the lock held)
							verifhook.Unregister(dir)
							close(e.release)
							cs.Close()
							old := S
							verifhook.Register(snap, handler)
							dirs = append(dirs, snap)
							S2, err := t38.Start(t38.Opts{Dir: snap})
							if err != nil {
								fail("shrink-crash-loses-data", fmt.Sprintf("round %d: process killed at %s: the directory does not start: %v; files: %s", ri, e.name, err, listDir(snap)))
							}
							old.StopAsync()
							S, dir = S2, snap
							cs = S.MustDial()
							dK, err := t38.TakeDump(S.Addr)
							if err != nil {
								t.Fatalf("dump: %v", err)
							}
							dT, err := t38.TakeDump(T.Addr)
							if err != nil {
								t.Fatalf("dump twin: %v", err)
							}
							if diff := dT.Diff(dK); diff != "" {
								fail("shrink-crash-loses-data", fmt.Sprintf("round %d: process killed at %s (files: %s): the restarted server differs from the acknowledged state (A=twin, B=restarted): %s", ri, e.name, listDir(snap), diff))
							}
							break loop
						}
						close(e.release)
					}
				case <-deadline:
					c.Inconclusive("shrink did not finish within 120 s")
					arm(false)
					return labels
				}
			}
			arm(false)
			if r.Mode == "free" {
				labels["completed-rewrite"] = true
				if leftover {
					labels["nt:completed-rewrite-after-leftover"] = true
				}
			}
		}
		for _, cmd := range r.After {
			both(cmd)
		}
	}
	// served state, then a restart of the final directory
	dT, err := t38.TakeDump(T.Addr)
	if err != nil {
		t.Fatalf("dump twin: %v", err)
	}
	dS, err := t38.TakeDump(S.Addr)
	if err != nil {
		fail("shrink-changes-served-state", "dump of the shrunk server failed: "+err.Error())
	}
	if diff := dT.Diff(dS); diff != "" {
		fail("shrink-changes-served-state", "after the rounds the served dataset differs from the un-shrunk twin (A=twin, B=shrunk): "+diff)
	}
	after := t38.NewDir("c09reafter")
	if err := t38.CopyDir(dir, after); err != nil {
		t.Fatalf("copy: %v", err)
	}
	dR, R, err := bootDump(after)
	if err != nil {
		fail("shrink-restart-differs", "restart after the rounds: "+err.Error()+" files: "+listDir(after))
	}
	defer R.StopAsync()
	if diff := dT.Diff(dR); diff != "" {
		fail("shrink-restart-differs", fmt.Sprintf("restart after %d rounds (files: %s) recovers a different dataset than the un-shrunk twin serves (A=twin, B=restarted): %s", len(rc.Rounds), listDir(after), diff))
	}
	os.RemoveAll(after)
	return labels
}

func TestC09_Reshrink(t *testing.T) {
	c := ev.New("C09", "reshrink", "fault_enumeration")
	t.Cleanup(c.Flush)
	c.Rule("2-4 rounds on one data directory: writes that mostly make the dataset smaller (DROP, PDEL, DEL) or add large values, then an AOFSHRINK that completes, is abandoned (RENAME acknowledged at the before-swap gate) or is cut short by a process kill at the first ids-batch gate or at before-swap (the directory copied there is booted and the case continues on it), then more writes; the last round always completes a rewrite and is followed by a write. Oracles: equal replies on the un-shrunk twin, the booted kill snapshot == twin, final served dump == twin, restart of the final directory == twin. Non-trivial: a rewrite completes after an earlier one on the same directory was abandoned or killed; distinct by (collection sizes, modes, write commands).")
	ev.Rapid("reshrink", ev.Pick(120, 500))
	rapid.Check(t, func(rt *rapid.T) {
		rc := drawReCase(rt)
		c.Case()
		labels := runReCase(rt, c, rc)
		for l := range labels {
			c.Label(l)
		}
		if labels["nt:completed-rewrite-after-leftover"] {
			var b strings.Builder
			for _, col := range rc.Cols {
				fmt.Fprintf(&b, "%d,", col.N)
			}
			for _, r := range rc.Rounds {
				b.WriteString("|" + r.Mode + ":")
				for _, cmd := range append(append([][]string{}, r.Before...), r.After...) {
					b.WriteString(strings.ToLower(cmd[0]) + ",")
				}
			}
			c.NonTrivial(b.String())
			if c.WantSample() {
				var modes []string
				for _, r := range rc.Rounds {
					modes = append(modes, r.Mode)
				}
				c.Sample(map[string]any{"collections": rc.Cols, "modes": modes})
			}
		}
	})
}

// TestC09_ShrinkProbes: deterministic regressions of repaired findings around
// what AOFSHRINK writes (each would make the rewritten log unloadable or
// different from what was acknowledged).
func TestC09_ShrinkProbes(t *testing.T) {
	if ev.Shard() != 0 {
		t.Skip("probes run on shard 0")
	}
	c := ev.New("C09", "shrink-probes", "fault_enumeration")
	t.Cleanup(c.Flush)
	c.Rule("deterministic regression probes: (1) field names that become reserved names after trimming (\" z\", \"lat \") are either refused or survive AOFSHRINK + restart; (2) a channel whose area is given by reference (FENCE ... GET key id) keeps the area it resolved when it was defined across AOFSHRINK + restart, also when the referenced object was deleted or replaced meanwhile: the same SET produces the same notifications on the restarted server as on an un-shrunk twin. Non-trivial: every probe.")
	// (1) reserved names after trimming
	{
		c.Case()
		S, err := t38.Start(t38.Opts{})
		if err != nil {
			t.Fatal(err)
		}
		cs := S.MustDial()
		accepted := 0
		for _, cmd := range [][]string{
			{"SET", "k", "a", "FIELD", " z", "7", "POINT", "1", "2"},
			{"SET", "k", "b", "POINT", "1", "2"},
			{"FSET", "k", "b", "lat ", "5"},
			{"FSET", "k", "b", "\tlon", "5"},
		} {
			if v := cs.MustDo(cmd...); !v.IsErr() && cmd[0] != "SET" || (cmd[0] == "SET" && len(cmd) > 6 && !v.IsErr()) {
				accepted++
			}
		}
		cs.MustDo("SET", "k", "c", "POINT", "3", "4")
		cs.MustDo("AOFSHRINK")
		time.Sleep(300 * time.Millisecond)
		for i := 0; i < 5000; i++ {
			if _, err := os.Stat(S.AOFPath() + "-shrink"); os.IsNotExist(err) {
				break
			}
			time.Sleep(time.Millisecond)
		}
		before, _ := t38.TakeDump(S.Addr)
		dir := t38.NewDir("c09probe")
		if err := t38.CopyDir(S.Dir, dir); err != nil {
			t.Fatal(err)
		}
		cs.Close()
		S.StopAsync()
		after, R, err := bootDump(dir)
		if err != nil {
			c.Violation("reserved-field-name-after-trim", fmt.Sprintf("%d writes with field names that trim to z/lat/lon were accepted; after AOFSHRINK the server does not start on its own log: %v", accepted, err), nil)
		} else {
			if diff := before.Diff(after); diff != "" {
				c.Violation("reserved-field-name-after-trim", "dataset differs after AOFSHRINK + restart: "+diff, nil)
			}
			R.StopAsync()
		}
		os.RemoveAll(dir)
		c.NonTrivial("reserved-names")
	}
	// (2) areas by reference
	{
		c.Case()
		A := `{"type":"Polygon","coordinates":[[[0,0],[10,0],[10,10],[0,10],[0,0]]]}`
		B := `{"type":"Polygon","coordinates":[[[50,50],[60,50],[60,60],[50,60],[50,50]]]}`
		setup := [][]string{
			{"SET", "areas", "zone1", "OBJECT", A},
			{"SET", "areas", "zone2", "OBJECT", A},
			{"SET", "areas", "keep", "POINT", "1", "1"},
			{"SETCHAN", "c1", "WITHIN", "fleet", "FENCE", "DETECT", "enter,inside,outside", "GET", "areas", "zone1"},
			{"SETCHAN", "c2", "WITHIN", "fleet", "FENCE", "DETECT", "enter,inside,outside", "GET", "areas", "zone2"},
			{"DEL", "areas", "zone1"},
			{"SET", "areas", "zone2", "OBJECT", B},
		}
		run := func(shrink bool) (string, error) {
			S, err := t38.Start(t38.Opts{})
			if err != nil {
				return "", err
			}
			cs := S.MustDial()
			for _, cmd := range setup {
				if v := cs.MustDo(cmd...); v.IsErr() {
					return "", fmt.Errorf("%v: %s", cmd, v)
				}
			}
			srv := S
			if shrink {
				cs.MustDo("AOFSHRINK")
				time.Sleep(300 * time.Millisecond)
				for i := 0; i < 5000; i++ {
					if _, err := os.Stat(S.AOFPath() + "-shrink"); os.IsNotExist(err) {
						break
					}
					time.Sleep(time.Millisecond)
				}
				dir := t38.NewDir("c09probe")
				if err := t38.CopyDir(S.Dir, dir); err != nil {
					return "", err
				}
				cs.Close()
				S.StopAsync()
				R, err := t38.Start(t38.Opts{Dir: dir})
				if err != nil {
					return "", fmt.Errorf("restart: %v", err)
				}
				srv = R
				defer os.RemoveAll(dir)
			}
			defer srv.StopAsync()
			sub := srv.MustDial()
			defer sub.Close()
			if err := sub.Send("PSUBSCRIBE", "c*"); err != nil {
				return "", err
			}
			if _, err := sub.RecvTimeout(5 * time.Second); err != nil {
				return "", err
			}
			w := srv.MustDial()
			defer w.Close()
			w.MustDo("SET", "fleet", "t", "POINT", "5", "5")
			w.MustDo("SET", "fleet", "u", "POINT", "55", "55")
			w.MustDo("PUBLISH", "cend", "x")
			var got []string
			for {
				v, err := sub.RecvTimeout(10 * time.Second)
				if err != nil {
					return "", fmt.Errorf("subscriber: %v (got %v)", err, got)
				}
				if len(v.Arr) >= 4 && v.Arr[2].Str == "cend" {
					break
				}
				if len(v.Arr) >= 4 {
					m := v.Arr[3].Str
					detect, id := "", ""
					if i := strings.Index(m, `"detect":"`); i >= 0 {
						detect = m[i+10:]
						detect = detect[:strings.IndexByte(detect, '"')]
					}
					if i := strings.Index(m, `"id":"`); i >= 0 {
						id = m[i+6:]
						id = id[:strings.IndexByte(id, '"')]
					}
					got = append(got, v.Arr[2].Str+":"+id+":"+detect)
				}
			}
			chans := srv.MustDial()
			defer chans.Close()
			n := len(chans.MustDo("CHANS", "*").Arr)
			return fmt.Sprintf("%d channels; %s", n, strings.Join(got, ",")), nil
		}
		want, err1 := run(false)
		got, err2 := run(true)
		if err1 != nil {
			t.Fatalf("twin: %v", err1)
		}
		if err2 != nil {
			c.Violation("shrink-reresolves-get-area", "after AOFSHRINK + restart: "+err2.Error(), nil)
		} else if got != want {
			c.Violation("shrink-reresolves-get-area", fmt.Sprintf("channels defined with FENCE ... GET areas zoneN (zone1 deleted, zone2 replaced afterwards): un-shrunk server announces %q, after AOFSHRINK + restart %q", want, got), nil)
		}
		c.NonTrivial("get-areas")
		c.Sample(map[string]any{"announced": want})
	}
}
